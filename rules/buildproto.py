"""Shared analysis of the rebuild protocol in lalrpop::build (C21, C22, parts of C03/C23).

Everything is located by role:
  GATE  = the body in lalrpop::build returning io::Result<bool> that opens files for reading
  W     = the body that calls GATE (the output writer)
  X, Y  = W's parameters passed to GATE as (grammar path, output path)
"""
import json
import re

from . import core
from .core import callee_of, callee_args, origins
from .effects import Effects, MUTATING, direct_effects

FROM_RESIDUAL = "FromResidual"


def deep_transparent(callee):
    """provenance mode: every call's result may depend on all of its arguments"""
    if callee is None:
        return None
    return "all"


def arg_params(body, op, deep=False, facts=None):
    """set of parameter indices the operand (may) come from"""
    o = origins(body, op, transparent=deep_transparent if deep else core.transparent_args,
                through_agg=deep, facts=facts)
    return {d[1] for d in o if d[0] == "arg"}, o


STRICT_IDENTITY = ("::deref", "::as_ref", "::borrow", "::as_path", "::as_os_str")
COPYING = ("::clone", "::to_path_buf", "::to_owned", "::into", "::from", "::to_string", "::into_path_buf")


def _mut_borrowed(body, local):
    """is `local` (or a move/copy image of it) ever mutably borrowed?"""
    imgs = core.forward_locals(body, {local}, transparent=lambda c: False)
    for bi, si, s in body.stmts():
        if s["k"] == "assign" and s["r"]["k"] in ("ref", "rawptr") and s["r"].get("mut") and s["r"]["p"]["l"] in imgs \
                and not any(e[0] == "deref" for e in s["r"]["p"]["pr"]):
            return True
    return False


def identity_param(body, op):
    """parameter index if the operand denotes exactly the value of one parameter: a chain of
    copies / borrows / deref / as_ref, or an owned copy (clone, to_path_buf) that is never
    mutated afterwards; else None"""
    def tr(c):
        if c is None:
            return None
        if c.endswith(STRICT_IDENTITY):
            return [0]
        if c.endswith(COPYING):
            return [0]
        return None
    o = origins(body, op, transparent=tr)
    if len(o) != 1:
        return None
    d = next(iter(o))
    if d[0] != "arg" or d[2]:
        return None
    # owned copies on the chain must not be mutated
    for l in core.slice_locals(body, [op], transparent=lambda c: bool(c) and c.endswith(STRICT_IDENTITY + COPYING)):
        for bi, si, dd in body.defs.get(l, []):
            if si == "t" and (callee_of(dd) or "").endswith(COPYING) and _mut_borrowed(body, l):
                return None
    return d[1]


class Proto:
    def __init__(self, facts):
        self.f = facts
        self.eff = Effects(facts)
        self.problems = []   # anchor problems (fail closed)
        self.locate()

    # -------------------------------------------------------------------------------------
    def locate(self):
        f = self.f
        cands = []
        for p, b in f.bodies.items():
            if b.unit != "lalrpop-lib" or not p.startswith("lalrpop::build::") or b.kind != "fn":
                continue
            if re.fullmatch(r"std::result::Result<bool, std::io::Error>", b.local_ty(0)):
                if "READOPEN" in self.eff.summary(p):
                    cands.append(b)
        if len(cands) != 1:
            raise core.AnchorMissing("rebuild gate (fn in lalrpop::build returning io::Result<bool> that opens a file): found %d" % len(cands))
        self.gate = cands[0]
        ws = []
        for p, b in f.bodies.items():
            if b.unit != "lalrpop-lib":
                continue
            for bi, t in b.calls():
                if callee_of(t) == self.gate.path:
                    ws.append((b, bi, t))
        if len(ws) != 1:
            raise core.AnchorMissing("output writer (unique caller of %s): found %d" % (self.gate.path, len(ws)))
        self.w, self.gate_block, self.gate_call = ws[0]
        w = self.w
        self.X = identity_param(w, self.gate_call["args"][0])
        self.Y = identity_param(w, self.gate_call["args"][1])
        if self.X is None or self.Y is None or self.X == self.Y:
            raise core.AnchorMissing("gate call arguments are not two distinct parameters of %s" % w.path)
        # call sites of W by effect
        self.sites = []
        for bi, t in w.calls():
            e = self.eff.of_call(t)
            d = direct_effects(t)
            if e or d:
                self.sites.append({"block": bi, "callee": callee_of(t), "eff": e, "direct": d, "t": t,
                                   "ln": t["ln"]})
        self.error_exits = {bi for bi, t in w.calls() if FROM_RESIDUAL in (callee_of(t) or "")}
        self.locate_publisher()

    def locate_publisher(self):
        """The function that creates, fills and publishes the output file: the writer itself, or the unique
        local helper it calls for that (parameters are mapped so the same obligations apply inside it)."""
        w = self.w
        self.pub, self.pubX, self.pubY, self.pubBuf, self.pub_call = w, self.X, self.Y, None, None
        if any("CREATE" in s["direct"] for s in self.sites):
            return
        cands = [s for s in self.sites if {"CREATE", "WRITE"} <= s["eff"] and "GEN" not in s["eff"] and self.f.body(s["callee"]) is not None]
        if len(cands) != 1:
            return
        s = cands[0]
        h = self.f.body(s["callee"])
        gen_callees = {x["callee"] for x in self.sites if "GEN" in x["eff"]}
        px = py = pb = None
        for i, a in enumerate(s["t"]["args"]):
            p = identity_param(w, a)
            if p == self.X:
                px = i + 1
            elif p == self.Y:
                py = i + 1
            else:
                o = origins(w, a)
                if any(d[0] == "call" and d[1] in gen_callees for d in o):
                    pb = i + 1
        if px is None or py is None:
            return
        self.pub, self.pubX, self.pubY, self.pubBuf, self.pub_call = h, px, py, pb, s
        self.pub_sites = []
        for bi, t in h.calls():
            e = self.eff.of_call(t)
            d = direct_effects(t)
            if e or d:
                self.pub_sites.append({"block": bi, "callee": callee_of(t), "eff": e, "direct": d, "t": t, "ln": t["ln"]})

    def psites(self, eff, direct=True):
        """effect sites inside the publisher function"""
        src = self.sites if self.pub is self.w else self.pub_sites
        k = "direct" if direct else "eff"
        return [s for s in src if eff in s[k]]

    def pdesc(self, s):
        return "%s:%d call %s" % (self.pub.relfile(), s["ln"], s["callee"])

    def site_desc(self, s):
        return "%s:%d call %s" % (self.w.relfile(), s["ln"], s["callee"])

    # -------------------------------------------------------------------------------------
    def gate_edges(self):
        """(needs_edges, force_edges): CFG edges of W taken when a rebuild is required"""
        w = self.w
        needs, force = [], []
        for bi, bl in enumerate(w.blocks):
            t = bl["t"]
            if t["k"] != "switch" or t["oty"] != "bool":
                continue
            o = origins(w, t["o"])
            nz = [(bi, tgt) for v, tgt in t["targets"] if v != 0]
            if not any(v == 0 for v, _ in t["targets"]):
                continue
            nz.append((bi, t["otherwise"]))
            for d in o:
                if d[0] == "call" and d[1] == self.gate.path and "Continue" in d[3]:
                    needs += nz
                if d[0] in ("arg", "call") and "force_build" in d[-1]:
                    force += nz
        return needs, force

    def gate_edges_exclusive(self):
        """like gate_edges, but only edges of switches that test ONE of the two conditions (a merged
        `forced || needs` boolean tests both and is left alone)"""
        needs, force = self.gate_edges()
        both = {e[0] for e in needs} & {e[0] for e in force}
        w = self.w

        def pure(block, what):
            o = origins(w, w.blocks[block]["t"]["o"])
            if what == "needs":
                return all(d[0] == "call" and d[1] == self.gate.path for d in o)
            return all(d[0] in ("arg", "call") and "force_build" in d[-1] for d in o)
        return ([e for e in needs if e[0] not in both and pure(e[0], "needs")],
                [e for e in force if e[0] not in both and pure(e[0], "force")])

    def sites_with(self, eff, direct=False):
        k = "direct" if direct else "eff"
        return [s for s in self.sites if eff in s[k]]

    def continue_target(self, site):
        """block entered when the Result returned at `site` is Ok (through `?` or a match)"""
        w = self.w
        dest = site["t"]["dest"]["l"]
        images = core.forward_locals(w, {dest}, transparent=lambda c: bool(c) and c.endswith("::branch"))
        for bi, bl in enumerate(w.blocks):
            t = bl["t"]
            if t["k"] != "switch":
                continue
            # switch on discriminant of an image
            op = t["o"]
            l = core.op_local(op)
            if l is None:
                continue
            for dbi, si, d in w.defs.get(l, []):
                if si != "t" and d["r"]["k"] == "discr" and d["r"]["p"]["l"] in images and not d["r"]["p"]["pr"]:
                    tg = dict((v, x) for v, x in t["targets"])
                    if 0 in tg:
                        brk = [x for v, x in t["targets"] if v != 0]
                        return tg[0], brk, bi
        return None, [], None
