"""C12 -- precedence and associativity annotations yield the documented operator grammar
(clause: the associativity table, the substitution step and the attribute vocabulary)."""
import json
import re

from . import core, symex
from .core import callee_of, origins
from .report import Report

LEVEL = "other"
EXPLANATION = (
    "The tiered grammar is produced by one substitution engine driven by a small table. Decided from MIR (symbolic "
    "evaluation / value-flow): (1) the table in expand_nonterm: left -> OneThen(current level, previous level) walked "
    "Forward, right -> the same walked Backward, none -> Every(previous level), all -> Every(current level); (2) the "
    "substitution step replace_symbol: on the target nonterminal Every(k) rewrites to k and stays Every(k), "
    "OneThen(a, b) rewrites to a and continues as Every(b); other symbols are traversed, terminals leave the state "
    "unchanged; (3) Forward folds over iter_mut(), Backward over iter_mut().rev() (in replace_symbols and for macro "
    "arguments); (4) vocabulary: \"left\"/\"right\"/\"none\"/\"all\" parse to Left/Right/NonAssoc/FullyAssoc and the "
    "default associativity is `all`; a new precedence attribute resets the associativity to that default, alternatives "
    "without one inherit level and associativity from the fold state; (5) levels are sorted ascending and deduplicated "
    "and the loosest level keeps the nonterminal's own name. Language equivalence with the documented grammar for all "
    "annotation layouts is NOT decided.")

P = "lalrpop::normalize::precedence::"


def app(v, name):
    return v and v[0] == "app" and v[1][0] == "fn" and v[1][1].endswith(name)


def run(tier):
    rep = Report("C12", LEVEL, tier)
    rep.explanation = EXPLANATION
    rep.not_decided = "that the generated tiers are language-equivalent to the documented operator grammar for every annotation layout and input"
    rep.trusted = ["rustc MIR", "term evaluator (rules/symex.py)"]
    f = core.Facts(core.ensure_facts())
    adt = f.adts.get(P + "Assoc")
    if adt is None:
        rep.anchor_missing("precedence::Assoc")
        return rep
    variants = [v["name"] for v in adt["variants"]]
    # ---- (4) vocabulary
    fs = f.one(r"^<lalrpop::normalize::precedence::Assoc as std::str::FromStr>::from_str$")
    got = {}
    for r in symex.term_eval(f, fs, inline=lambda p: False):
        v = r[0]
        trues = [t[2][1][1] for _, t, val in r.pc if app(t, "::eq") and val != 0 and len(t[2]) == 2 and t[2][1] and t[2][1][0] == "s"]
        if v and v[0] == "adt" and v[1].endswith("::Ok") and len(trues) == 1:
            got[trues[0]] = v[3][0][1].split("::")[-1]
        elif v and v[0] == "adt" and v[1].endswith("::Ok"):
            got["?%d" % len(got)] = "?"
    want = {"left": "Left", "right": "Right", "none": "NonAssoc", "all": "FullyAssoc"}
    rep.ob("vocabulary.side-strings", "Assoc::from_str: %s" % got, got == want,
           "the associativity keywords do not map to the documented sides: %s (documented %s)" % (got, want), key="assoc-vocabulary",
           file=fs.relfile(), line=fs.line, fn=fs.path)
    df = f.one(r"^<lalrpop::normalize::precedence::Assoc as std::default::Default>::default$")
    r = symex.term_eval(f, df)
    rep.ob("vocabulary.default-is-all", "Assoc::default() = %s" % [symex.show_term(x[0]) for x in r],
           len(r) == 1 and r[0][0] and r[0][0][0] == "adt" and r[0][0][1].endswith("::FullyAssoc"),
           "the default associativity is not `all`", key="assoc-default", file=df.relfile(), line=df.line, fn=df.path)
    # ---- (2) substitution step
    rs = f.one("^" + re.escape(P + "replace_symbol") + "$")
    sk = f.adts["lalrpop::grammar::parse_tree::SymbolKind"]
    sk_names = [v["name"] for v in sk["variants"]]
    rets = symex.term_eval(f, rs, inline=lambda p: False)
    by = {}
    for r in rets:
        disc = [val for _, t, val in r.pc if app(t, "discr") and "kind" in symex.show_term(t) and isinstance(val, int)]
        sub = [val for _, t, val in r.pc if app(t, "discr") and symex.show_term(t) == "discr(arg3)" and isinstance(val, int)]
        eqs = [val for _, t, val in r.pc if app(t, "::eq")]
        by.setdefault((sk_names[disc[0]] if disc else "?", tuple(sub), tuple(bool(x) for x in eqs)), []).append(r[0])
    sub_adt = f.adts[P + "Substitution"]
    sub_names = [v["name"] for v in sub_adt["variants"]]
    ev_i, ot_i = sub_names.index("Every"), sub_names.index("OneThen")
    nt_hit = {k: v for k, v in by.items() if k[0] == "Nonterminal" and k[2] and k[2][-1]}
    ok_every = any(k[1] == (ev_i,) and all(x == ("sym", "arg3") for x in v) for k, v in nt_hit.items())
    ok_one = any(k[1] == (ot_i,) and all(x and x[0] == "adt" and x[1].endswith("Substitution::Every") and "OneThen).1" in symex.show_term(x) for x in v) for k, v in nt_hit.items())
    rep.ob("step.every-stays-every", "replace_symbol on target with Every(k) returns the same state", ok_every,
           "after rewriting an occurrence under Every(k) the state changes", key="step-every", file=rs.relfile(), line=rs.line, fn=rs.path)
    rep.ob("step.onethen-becomes-every-second", "replace_symbol on target with OneThen(a, b) returns Every(b)", ok_one,
           "after rewriting the first occurrence under OneThen(a, b) the state is not Every(b): the remaining occurrences get the wrong level",
           key="step-onethen", file=rs.relfile(), line=rs.line, fn=rs.path)
    miss = [k for k, v in by.items() if k[0] == "Nonterminal" and k[2] and not k[2][-1] and not all(x == ("sym", "arg3") for x in v)]
    leaf = [k for k, v in by.items() if k[0] in ("Terminal", "Error", "Lookahead", "Lookbehind") and not all(x == ("sym", "arg3") for x in v)]
    rep.ob("step.other-symbols-keep-state", "non-target nonterminals and terminals return the state unchanged", not miss and not leaf,
           "a symbol that is not the target changes the substitution state: %s" % (miss + leaf), key="step-leaf", file=rs.relfile(), line=rs.line, fn=rs.path)
    # the stores into symbol.kind
    stores = []
    for bi, si, s in rs.stmts():
        if s["k"] == "assign" and any(e[0] == "field" and e[2] == "kind" for e in s["p"]["pr"]) and any(e[0] == "deref" for e in s["p"]["pr"]):
            o = origins(rs, s["r"]["o"], transparent=lambda c: [0] if c and c.endswith("::clone") else None) if s["r"]["k"] == "use" else set()
            for d in o:
                if d[0] == "arg" and d[1] == 3:
                    stores.append(tuple(x for x in d[2] if x in ("Every", "OneThen", "0", "1")))
    rep.ob("step.rewrites", "symbol.kind <- %s" % sorted(set(stores)), set(stores) == {("Every", "0"), ("OneThen", "0")},
           "the target occurrence is not rewritten to k under Every(k) and to a under OneThen(a, b)", key="step-rewrite",
           file=rs.relfile(), line=rs.line, fn=rs.path)
    # ---- (3) direction
    dir_adt = f.adts[P + "Direction"]
    dnames = [v["name"] for v in dir_adt["variants"]]
    rss = f.one("^" + re.escape(P + "replace_symbols") + "$")
    okd = True
    seen = set()
    for r in symex.term_eval(f, rss, inline=lambda p: False):
        d = [val for _, t, val in r.pc if symex.show_term(t) == "discr(arg4)" and isinstance(val, int)]
        if not d:
            okd = False
            continue
        name = dnames[d[0]]
        seen.add(name)
        has_rev = "Iterator::rev(" in symex.show_term(r[0])
        okd = okd and (has_rev == (name == "Backward")) and "iter_mut" in symex.show_term(r[0])
    rep.ob("direction.forward-and-backward-folds", "replace_symbols: %s" % sorted(seen), okd and seen == {"Forward", "Backward"},
           "Forward does not fold over iter_mut() / Backward not over iter_mut().rev()", key="direction-folds", file=rss.relfile(), line=rss.line, fn=rss.path)
    # ---- (1) the table
    tabs = [b for b in f.find("^" + re.escape(P + "expand_nonterm") + r"::\{closure#\d+\}$")
            if any(s["k"] == "assign" and s["r"]["k"] == "agg" and s["r"].get("adt") == P + "Substitution" for _, _, s in b.stmts())]
    if len(tabs) != 1:
        rep.anchor_missing("closure of expand_nonterm that builds the Substitution table (found %d)" % len(tabs))
        return rep
    tb = tabs[0]
    sw = None
    for sb, bl in enumerate(tb.blocks):
        t = bl["t"]
        if t["k"] == "switch" and len(t["targets"]) >= 3:
            l = core.op_local(t["o"])
            for _, si, d in tb.defs.get(l, []) if l is not None else []:
                if si != "t" and d["r"]["k"] == "discr":
                    # the scrutinee is an Assoc
                    pl = d["r"]["p"]
                    ty = tb.local_ty(pl["l"])
                    if "precedence::Assoc" in ty or any(e[0] == "field" and "Assoc" in e[4] for e in pl["pr"]):
                        sw = (sb, t)
    if sw is None:
        rep.anchor_missing("match on Assoc in the table closure")
        return rep
    sb, t = sw
    targets = {v: x for v, x in t["targets"]}
    if len(targets) < len(variants):
        for i in range(len(variants)):
            targets.setdefault(i, t["otherwise"])
    table = {}
    for vi, tgt in targets.items():
        region = {b2 for b2 in range(len(tb.blocks)) if tb.dominates(tgt, b2)}
        subs, dirs = [], []
        for bi in sorted(region):
            for s in tb.blocks[bi]["s"]:
                if s["k"] == "assign" and s["r"]["k"] == "agg":
                    if s["r"].get("adt") == P + "Substitution":
                        srcs = []
                        for op in s["r"]["ops"]:
                            o = origins(tb, op, transparent=lambda c: [0] if c and (c.endswith("::expect") or c.endswith("::as_ref") or c.endswith("::unwrap")) else None)
                            kind = "?"
                            for d in o:
                                if d[0] == "arg" and d[1] == 1:
                                    kind = "upvar"
                                if d[0] == "agg":
                                    kind = "current"     # &SymbolKind::Nonterminal(name.clone()) built in this closure
                                if d[0] == "call" and (d[1].endswith("Option::<T>::map") or "prev" in d[1]):
                                    kind = "previous"
                                if d[0] == "undef" or d[0] == "other":
                                    kind = kind
                            srcs.append(kind)
                        subs.append((s["r"]["variant"], tuple(srcs)))
                    elif s["r"].get("adt") == P + "Direction":
                        dirs.append(s["r"]["variant"])
        table[variants[vi] if vi < len(variants) else str(vi)] = (subs, dirs)
    rep.analysed["assoc_table"] = {k: str(v) for k, v in table.items()}
    def row(name):
        subs, dirs = table.get(name, ([], []))
        return (subs[0][0] if len(subs) == 1 else None, subs[0][1] if len(subs) == 1 else None, dirs[0] if len(dirs) == 1 else None)
    L, R, N, A = row("Left"), row("Right"), row("NonAssoc"), row("FullyAssoc")
    rep.ob("table.left", "left -> %s" % (L,), L[0] == "OneThen" and L[2] == "Forward" and L[1] and L[1][0] != L[1][1],
           "left associativity is not OneThen(current, previous) walked Forward", key="table:left", file=tb.relfile(), line=tb.line, fn=tb.path)
    rep.ob("table.right", "right -> %s" % (R,), R[0] == "OneThen" and R[2] == "Backward" and R[1] == L[1],
           "right associativity is not the mirror image of left (same substitution, walked Backward)", key="table:right", file=tb.relfile(), line=tb.line, fn=tb.path)
    rep.ob("table.none", "none -> %s" % (N,), N[0] == "Every" and L[1] is not None and N[1] == (L[1][1],),
           "`none` does not send every recursive occurrence to the previous (tighter) level", key="table:none", file=tb.relfile(), line=tb.line, fn=tb.path)
    rep.ob("table.all", "all -> %s" % (A,), A[0] == "Every" and L[1] is not None and A[1] == (L[1][0],),
           "`all` does not keep every recursive occurrence at the current level", key="table:all", file=tb.relfile(), line=tb.line, fn=tb.path)
    # ---- (4b) the inheritance fold: reset on every precedence attribute; extraction independent of attribute order
    nested = [b for p, b in f.bodies.items() if p.startswith(P + "expand_nonterm::{closure") and b.kind != "promoted"]
    lvl_parses = []
    for b in nested:
        for bi, t2 in b.calls():
            if (callee_of(t2) or "").endswith("<impl str>::parse") and re.search(r"\bu(32|size|64)\b", core.callee_args(t2)):
                lvl_parses.append((b, bi, t2))
    rep.floor("places that parse a precedence level inside the fold", len(lvl_parses), 1)
    for b, bi, t2 in lvl_parses:
        dflt = {x for x, t3 in b.calls() if (callee_of(t3) or "").endswith("precedence::Assoc as std::default::Default>::default")}
        reach = b.reachable(b.succ[bi], removed_blocks=dflt)
        esc = [x for x in b.return_blocks() if x in reach]
        rep.ob("fold.precedence-resets-associativity", "%s: level parsed at line %d, Assoc::default() at blocks %s" % (b.path.split("precedence::")[-1], t2["ln"], sorted(dflt)),
               bool(dflt) and not esc,
               "after a `#[precedence]` attribute is read there is a path on which the associativity is not reset to the default (`all`): "
               "an alternative that restates a level without `#[assoc]` inherits left/right/none from the previous alternative",
               key="fold:reset-conditional", file=b.relfile(), line=t2["ln"], fn=b.path)
    # a per-attribute closure (FnMut) that handles both attribute names must not let one arm overwrite what the other arm sets
    n_two = 0
    for b in nested:
        arms = {}
        for bi, t2 in b.calls():
            if not (callee_of(t2) or "").endswith("::eq") or len(t2["args"]) != 2:
                continue
            names = set()
            for a in t2["args"]:
                for d in origins(b, a, transparent=lambda c: "all" if c else None, facts=f):
                    if d[0] == "const":
                        try:
                            names.add(json.loads(d[1]).get("str"))
                        except (ValueError, AttributeError):
                            pass
            names &= {"precedence", "assoc"}
            if len(names) != 1 or t2.get("t") is None:
                continue
            sw = b.blocks[t2["t"]]["t"]
            if sw["k"] != "switch":
                continue
            tgt = [x for v, x in sw["targets"] if v != 0] + ([sw["otherwise"]] if any(v == 0 for v, _ in sw["targets"]) else [])
            region = set()
            for x in tgt:
                region |= {y for y in range(len(b.blocks)) if b.dominates(x, y)}
            cells = set()
            for y in region:
                for st in b.blocks[y]["s"]:
                    if st["k"] != "assign" or not st["p"]["pr"] or st["p"]["pr"][0][0] != "deref":
                        continue
                    base = st["p"]["l"]
                    if base == 1 and len(st["p"]["pr"]) > 1 and st["p"]["pr"][1][0] == "field":
                        cells.add(st["p"]["pr"][1][1])
                    for _, si, d in b.defs.get(base, []):
                        if si != "t" and d["r"]["k"] == "use" and d["r"]["o"].get("p", {}).get("l") == 1:
                            fl = [e[1] for e in d["r"]["o"]["p"]["pr"] if e[0] == "field"]
                            if fl:
                                cells.add(fl[0])
            arms[names.pop()] = cells
        if len(arms) == 2:
            n_two += 1
            both = arms["precedence"] & arms["assoc"]
            rep.ob("fold.attribute-order-independent", "%s: precedence arm writes captured %s, assoc arm writes captured %s" % (b.path.split("precedence::")[-1], sorted(arms["precedence"]), sorted(arms["assoc"])),
                   not both,
                   "one pass over the attribute list lets the `precedence` arm and the `assoc` arm assign the same captured variable: the result depends on the "
                   "order in which the two attributes are written (`#[assoc(side=\"none\")] #[precedence(level=\"1\")]` loses its side)",
                   key="fold:attribute-order", file=b.relfile(), line=b.line, fn=b.path)
    rep.analysed["single_pass_attribute_closures"] = n_two
    # ---- (5) levels sorted + dedup
    en = f.one("^" + re.escape(P + "expand_nonterm") + "$")
    srt = [bi for bi, t2 in en.calls() if re.search(r"slice::<impl \[T\]>::sort(_unstable)?$", callee_of(t2) or "")]
    ded = [bi for bi, t2 in en.calls() if (callee_of(t2) or "").endswith("Vec::<T, A>::dedup")]
    rep.ob("levels.sorted-and-deduplicated", "expand_nonterm: sort at %s, dedup at %s" % (srt, ded), len(srt) == 1 and len(ded) == 1 and en.dominates(srt[0], ded[0]),
           "precedence levels are not sorted ascending and deduplicated before tiers are generated", key="levels-sort", file=en.relfile(), line=en.line, fn=en.path)
    return rep
