"""C21 -- non-forced builds never leave a stale or foreign output.

Decided: the rebuild protocol of the output writer in lalrpop::build, as obligations O1-O5 over
its MIR control-flow graph (all histories are sequences of calls of this one function per
grammar; an inductive argument over one call suffices, see DESIGN.md).
"""
import json

from . import core
from .core import callee_of, origins
from .report import Report
from .buildproto import Proto, arg_params, identity_param, deep_transparent
from .effects import MUTATING
from . import symex

LEVEL = "proof"
EXPLANATION = (
    "Protocol obligations on the MIR of the output writer (the unique caller of the rebuild gate in "
    "lalrpop::build): O1 nothing mutates the file system unless the build is forced or the gate says "
    "'rebuild'; O2 the gate answers 'current' only if BOTH header lines equal the expected version "
    "marker and the sha3 of the grammar; O3 remove-old dominates generation dominates publication "
    "(create/rename at the final path), header/hash/body are written in the order the gate reads them, "
    "and the body is the Ok payload of the generator; O4 writer and gate use the same marker constant "
    "and the same hash function on the same (grammar) parameter; O5 a failed generation reaches no "
    "publication site. Together: after every build the file at the output path is absent or carries "
    "(marker, hash(grammar at build time), generate(grammar)), and is untouched when current.")


def run(tier):
    rep = Report("C21", LEVEL, tier)
    rep.explanation = EXPLANATION
    rep.not_decided = ("that generation is a function of the grammar text only (C20), concurrent edits of the "
                       "grammar between parsing and hashing, SHA3 collisions, non-POSIX file semantics")
    rep.assumptions = ["sequential histories (no concurrent writer of the same output)",
                       "SHA3-256 collision freedom", "C20 (generation is deterministic)",
                       "std::fs functions behave as documented"]
    rep.trusted = ["rustc MIR construction at mir-opt-level=0", "callee resolution by rustc (Instance::try_resolve)",
                   "effect table in rules/effects.py (std::fs / io::Write entry points)"]
    f = core.Facts(core.ensure_facts())
    p = Proto(f)
    w, gate = p.w, p.gate
    rep.analysed.update({"writer": w.path, "gate": gate.path, "writer_blocks": len(w.blocks),
                         "gate_blocks": len(gate.blocks), "effect_sites_in_writer": len(p.sites),
                         "grammar_param": w.local_name(p.X), "output_param": w.local_name(p.Y)})
    rel = w.relfile()

    # ---------------- O1: untouched when current
    needs, force = p.gate_edges()
    rep.ob("O1.gate-edge:needs_rebuild", w.path, bool(needs),
           "no branch on the Ok payload of %s found in %s" % (gate.path, w.path),
           key="O1:no-needs-gate", file=rel, line=w.line, fn=w.path)
    rep.ob("O1.gate-edge:force_build", w.path, bool(force),
           "no branch on Session.force_build found in %s" % w.path,
           key="anchor-missing:force_build-gate", file=rel, line=w.line, fn=w.path)
    reach = w.reachable([0], removed_edges=set(needs) | set(force))
    n_sites = 0
    for s in p.sites:
        mut = s["eff"] & MUTATING
        if not mut:
            continue
        n_sites += 1
        ok = s["block"] not in reach
        rep.ob("O1.untouched-when-current", p.site_desc(s), ok,
               "call with file-system effect %s is reachable when the build is not forced and the gate "
               "reports the output as current" % sorted(mut),
               key="O1:ungated:%s" % s["callee"], file=rel, line=s["ln"], fn=w.path)
    rep.analysed["mutating_sites"] = n_sites

    # ---------------- site classes
    R = [s for s in p.sites_with("REMOVE") if p.Y in arg_params(w, s["t"]["args"][0])[0]] if p.sites_with("REMOVE") else []
    G = p.sites_with("GEN")
    C = p.sites_with("CREATE", direct=True)
    RN = p.sites_with("RENAME", direct=True)
    WR = p.sites_with("WRITE", direct=True)
    PUB = [s for s in C if identity_param(w, s["t"]["args"][0]) == p.Y] + \
          [s for s in RN if len(s["t"]["args"]) > 1 and identity_param(w, s["t"]["args"][1]) == p.Y]
    helper = p.pub is not w
    if helper:
        # creation / writes / rename live in a helper: its call site is the publication site of the writer,
        # the write obligations are discharged inside the helper (parameters mapped)
        PUB = [p.pub_call]
        rep.analysed["publisher_helper"] = p.pub.path
    rep.analysed.update({"REMOVE_sites": len(R), "GEN_sites": len(G), "CREATE_sites": len(C),
                         "RENAME_sites": len(RN), "WRITE_sites": len(WR), "PUBLISH_sites": len(PUB)})
    rep.floor("remove-old-output sites", len(R), 1)
    rep.floor("generation sites", len(G), 2)
    rep.floor("publication sites (create/rename at the output path)", len(PUB), 1)
    # ---------------- O3: order
    for g in G:
        ok = any(w.dominates(r["block"], g["block"]) and r["block"] != g["block"] for r in R)
        rep.ob("O3.remove-before-generate", p.site_desc(g), ok,
               "generation call is not dominated by the removal of the old output: a failing "
               "generation could leave the previous (stale) output in place",
               key="O3:gen-not-after-remove:%s" % g["callee"], file=rel, line=g["ln"], fn=w.path)
        cont, brk, swb = p.continue_target(g)
        rep.ob("O5.generation-result-checked", p.site_desc(g), cont is not None,
               "the Result of the generation call is not branched on",
               key="O5:gen-unchecked:%s" % g["callee"], file=rel, line=g["ln"], fn=w.path)
        for pb in PUB + C:
            ok = w.dominates(g["block"], pb["block"]) and (cont is None or w.dominates(cont, pb["block"]))
            rep.ob("O3.generate-before-publish", "%s -> %s" % (p.site_desc(g), p.site_desc(pb)), ok,
                   "the output file is created/published on a path on which this generation step "
                   "did not (successfully) complete",
                   key="O3:publish-not-after-gen:%s:%s" % (g["callee"], pb["callee"]),
                   file=rel, line=pb["ln"], fn=w.path)
        if cont is not None:
            for b0 in brk:
                bad = w.reachable([b0]) & {s["block"] for s in PUB + C + WR}
                rep.ob("O5.failed-build-leaves-nothing", p.site_desc(g), not bad,
                       "a create/write/publish site is reachable after this generation step failed",
                       key="O5:publish-after-failure:%s" % g["callee"], file=rel, line=g["ln"], fn=w.path)
    for r in R:
        bad = [pb for pb in PUB if r["block"] in w.reachable([pb["block"]]) and r["block"] != pb["block"]]
        rep.ob("O3.no-remove-after-publish", p.site_desc(r), not bad,
               "the output is removed again after being published", key="O3:remove-after-publish",
               file=rel, line=r["ln"], fn=w.path)

    # writes: receiver from a CREATE site, data classes
    gate_info = analyse_gate(rep, p)
    gen_callees = {g["callee"] for g in G}
    wfn, WX = w, p.X            # the function holding the writes, its grammar-path parameter
    if helper:
        wfn, WX = p.pub, p.pubX
        C = p.psites("CREATE")
        WR = p.psites("WRITE")
        rel = wfn.relfile()
    w_outer, w = w, wfn
    rep.floor("direct file writes", len(WR), 3)
    data = []
    for s in WR:
        t = s["t"]
        recv = origins(w, t["args"][0], facts=f)
        recv_sites = {d[2] for d in recv if d[0] == "call" and any(c["block"] == d[2] for c in C)}
        dat = origins(w, t["args"][1], through_agg=True, facts=f) if len(t["args"]) > 1 else set()
        consts = {json.loads(d[1]).get("str") for d in dat if d[0] == "const"} - {None}
        calls = {(d[1], d[2]) for d in dat if d[0] == "call"}
        data.append({"site": s, "recv": recv_sites, "consts": consts, "calls": calls})
        rep.ob("O3.write-targets-created-file", p.pdesc(s), len(recv_sites) == 1,
               "file write whose receiver is not the file created in this function",
               key="O3:write-foreign-file:%s" % s["callee"], file=rel, line=s["ln"], fn=w.path)
        for cb in recv_sites:
            rep.ob("O3.create-before-write", p.pdesc(s), w.dominates(cb, s["block"]), "",
                   key="O3:write-before-create", file=rel, line=s["ln"], fn=w.path)
    rep.ob("O3.single-output-file", w.path, len({b for d in data for b in d["recv"]}) == 1,
           "writes go to more than one created file", key="O3:several-output-files", file=rel,
           line=w.line, fn=w.path)
    if gate_info:
        V, H = gate_info["version_const"], gate_info["hash_fn"]
        wv = [d for d in data if V in d["consts"]]
        wh = [d for d in data if any(c == H for c, _ in d["calls"])]
        if helper:
            # the body is the helper's buffer parameter, which the writer binds to the generator's Ok payload
            wb = []
            for d in data:
                dat = origins(w, d["site"]["t"]["args"][1], through_agg=True, facts=f) if len(d["site"]["t"]["args"]) > 1 else set()
                if p.pubBuf is not None and any(x[0] == "arg" and x[1] == p.pubBuf for x in dat):
                    wb.append(d)
        else:
            wb = [d for d in data if any(c in gen_callees for c, _ in d["calls"])]
        rep.ob("O4.same-version-marker", w.path, len(wv) == 1,
               "the writer does not write the version marker constant the gate compares against (%r)" % V,
               key="O4:version-marker-mismatch", file=rel, line=w.line, fn=w.path)
        rep.ob("O4.same-hash-function", w.path, len(wh) == 1,
               "the writer does not write the result of the hash function the gate uses (%s)" % H,
               key="O4:hash-fn-mismatch", file=rel, line=w.line, fn=w.path)
        rep.ob("O3.body-is-generator-output", w.path, len(wb) == 1,
               "no write whose data is the Ok payload of a generation call",
               key="O3:body-not-from-generator", file=rel, line=w.line, fn=w.path)
        if len(wv) == 1 and len(wh) == 1 and len(wb) == 1:
            a, b, c = wv[0]["site"]["block"], wh[0]["site"]["block"], wb[0]["site"]["block"]
            rep.ob("O3.header-hash-body-order", w.path,
                   w.dominates(a, b) and w.dominates(b, c) and a != b != c,
                   "version line, hash line and body are not written in the order the gate reads them",
                   key="O3:write-order", file=rel, line=w.line, fn=w.path)
            # only those three writes
            rep.ob("O3.no-other-writes", w.path, len(data) == 3,
                   "the output receives writes other than marker, hash and body (%d writes)" % len(data),
                   key="O3:extra-writes", file=rel, line=w.line, fn=w.path)
            # hash of the grammar parameter, in the writer
            hs = [s for bi, t in w.calls() if callee_of(t) == H for s in [t]]
            okx = all(identity_param(w, t["args"][0]) == WX for t in hs) and bool(hs)
            rep.ob("O4.hash-of-grammar-param(writer)", w.path, okx,
                   "the hash written to the header is not computed from the grammar path parameter",
                   key="O4:hash-wrong-file:writer", file=rel, line=w.line, fn=w.path)
        w = w_outer
        rel = w.relfile()
        # generation input derives from the grammar parameter X
        ok = False
        for g in G:
            for a in g["t"]["args"]:
                ps, _ = arg_params(w, a, deep=True, facts=f)
                if p.X in ps:
                    ok = True
        rep.ob("O4.generation-reads-grammar-param", w.path, ok,
               "no generation call takes input derived from the grammar path parameter",
               key="O4:gen-wrong-input", file=rel, line=w.line, fn=w.path)
    w = w_outer
    rel = w.relfile()
    # ---------------- O6: a needed rebuild is not conditional on the other gate
    pub_blocks = {s["block"] for s in PUB}
    needs_x, force_x = p.gate_edges_exclusive()
    r_noforce = w.reachable([0], removed_edges=set(force_x))
    r_noneeds = w.reachable([0], removed_edges=set(needs_x))
    rep.ob("O6.stale-output-is-rebuilt-without-force", w.path, bool(pub_blocks & r_noforce),
           "with force_build off the publication site is unreachable: an edited grammar is never rebuilt",
           key="O6:rebuild-needs-force", file=rel, line=w.line, fn=w.path)
    rep.ob("O6.forced-build-rebuilds-current-output", w.path, bool(pub_blocks & r_noneeds),
           "a forced build does not reach the publication site when the gate reports the output as current",
           key="O6:force-ignored", file=rel, line=w.line, fn=w.path)
    # ---------------- O4b: the hash function digests the whole file it is given
    if gate_info and gate_info.get("hash_fn"):
        hb = f.body(gate_info["hash_fn"])
        if hb is None:
            rep.anchor_missing("hash function body")
        else:
            hrel = hb.relfile()
            opens = [t for _, t in hb.calls() if callee_of(t) == "std::fs::File::open"]
            rep.ob("O4b.hash-opens-its-argument", hb.path, len(opens) == 1 and identity_param(hb, opens[0]["args"][0]) == 1,
                   "the hash function does not open the path it is given", key="O4b:hash-open", file=hrel, line=hb.line, fn=hb.path)
            reads = [(bi, t) for bi, t in hb.calls() if (callee_of(t) or "").endswith("::read_to_end") or (callee_of(t) or "").endswith("::read_to_string")]
            ups = [(bi, t) for bi, t in hb.calls() if (callee_of(t) or "").endswith("Digest>::update") or (callee_of(t) or "").endswith("::update")]
            fins = [(bi, t) for bi, t in hb.calls() if (callee_of(t) or "").endswith("Digest>::finalize") or (callee_of(t) or "").endswith("::finalize")]
            ok = len(reads) == 1 and len(ups) >= 1 and len(fins) == 1
            if ok:
                buf = core.slice_locals(hb, [reads[0][1]["args"][1]])
                for ubi, ut in ups:
                    data = core.slice_locals(hb, [ut["args"][1]])
                    ok = ok and bool(buf & data) and hb.dominates(reads[0][0], ubi)
                # nothing slices the buffer between read and update
                sl = [callee_of(t) for _, t in hb.calls() if re_index(callee_of(t)) and core.slice_locals(hb, [t["args"][0]]) & buf]
                ok = ok and not sl
                # the returned string derives from finalize()
                prov = origins(hb, 0, transparent=deep_transparent, through_agg=True, record_calls=True, facts=f)
                ok = ok and any(d[0] == "call" and d[2] == fins[0][0] for d in prov)
            rep.ob("O4b.hash-digests-the-whole-file", hb.path, ok,
                   "the hash function does not feed the complete contents read from the file into the digest that it returns "
                   "(an edit outside the hashed part would not trigger a rebuild)", key="O4b:hash-partial", file=hrel, line=hb.line, fn=hb.path)
    for o in rep.obligations[:6]:
        rep.sample(o)
    return rep


def re_index(c):
    return bool(c) and (c.endswith("::index") or "::get" in c.split("<")[0][-8:] or c.endswith("::split_at") or c.endswith("::truncate"))


def analyse_gate(rep, p):
    """O2 + the gate half of O4.  Returns {'version_const', 'hash_fn'} or None."""
    f, gate = p.f, p.gate
    rel = gate.relfile()
    cmps = []
    for bi, t in gate.calls():
        c = callee_of(t) or ""
        if c.endswith("::ne") or c.endswith("::eq"):
            cmps.append((bi, t, c.endswith("::ne")))
    rep.analysed["gate_comparisons"] = len(cmps)
    if not rep.floor("header comparisons in the gate", len(cmps), 2):
        return None
    reads = [(bi, t) for bi, t in gate.calls() if (callee_of(t) or "").endswith("::read_line")]
    rep.floor("header line reads in the gate", len(reads), 2)
    info = {}
    atoms = {}
    for bi, t, neg in cmps:
        o = set()
        for a in t["args"]:
            o |= origins(gate, a, transparent=lambda c: "all" if c and (c.endswith("::trim") or core.is_transparent(c)) else None,
                         through_agg=True, facts=f)
        consts = {json.loads(d[1]).get("str") for d in o if d[0] == "const"} - {None}
        calls = {d[1] for d in o if d[0] == "call" and p.f.body(d[1]) is not None}
        # which read buffer: the String locals passed to read_line
        bufs = set()
        for rbi, rt in reads:
            rl = core.slice_locals(gate, [rt["args"][1]])
            al = set()
            for a in t["args"]:
                al |= core.slice_locals(gate, [a], transparent=lambda c: bool(c) and (c.endswith("::trim") or core.is_transparent(c)))
            if rl & al:
                bufs.add(rbi)
        kind = None
        if consts and not calls:
            kind = "version"
            info["version_const"] = sorted(consts)[0]
        elif calls:
            kind = "hash"
            info["hash_fn"] = sorted(calls)[0]
            hc = [tt for _, tt in gate.calls() if callee_of(tt) == info["hash_fn"]]
            ok = bool(hc) and all(identity_param(gate, tt["args"][0]) == 1 for tt in hc)
            rep.ob("O4.hash-of-grammar-param(gate)", gate.path, ok,
                   "the gate hashes something other than its grammar path parameter",
                   key="O4:hash-wrong-file:gate", file=rel, line=gate.line, fn=gate.path)
        atoms[bi] = {"kind": kind, "neg": neg, "reads": bufs}
    kinds = sorted(a["kind"] or "?" for a in atoms.values())
    rep.ob("O2.both-header-lines-compared", gate.path, kinds == ["hash", "version"],
           "the gate does not compare exactly one line with the version marker and one with the grammar hash (found %s)" % kinds,
           key="O2:comparisons", file=rel, line=gate.line, fn=gate.path)
    if kinds != ["hash", "version"]:
        return None
    # read order agrees with comparisons: first line <-> version, second line <-> hash
    order = [bi for bi, _ in reads]
    vb = [a for a in atoms.values() if a["kind"] == "version"][0]
    hb = [a for a in atoms.values() if a["kind"] == "hash"][0]
    ok = (len(vb["reads"]) == 1 and len(hb["reads"]) == 1 and vb["reads"] != hb["reads"]
          and gate.dominates(next(iter(vb["reads"])), next(iter(hb["reads"]))))
    rep.ob("O3.gate-reads-version-then-hash", gate.path, ok,
           "the gate does not compare the first line with the version marker and the second with the hash",
           key="O3:gate-read-order", file=rel, line=gate.line, fn=gate.path)
    # the file opened is parameter 2
    opens = [t for _, t in gate.calls() if (callee_of(t) or "") in ("std::fs::File::open",)]
    ok = bool(opens) and all(identity_param(gate, t["args"][0]) == 2 for t in opens)
    rep.ob("O4.gate-opens-output-param", gate.path, ok,
           "the gate reads the header from something other than its output path parameter",
           key="O4:gate-wrong-output", file=rel, line=gate.line, fn=gate.path)
    # O2: truth table of the returned bool over the two comparisons
    table = symex.truth_table(gate, {bi: ("ne" if a["neg"] else "eq") for bi, a in atoms.items()})
    rep.analysed["gate_truth_table"] = {str(k): sorted(v) for k, v in table.items()}
    n_atoms = len(atoms)
    saw_current = False
    for assign, outs in sorted(table.items()):
        # assign: tuple of (block, equal?) for the comparisons executed on the tabulated paths
        complete = len(assign) == n_atoms and all(eq for _, eq in assign)
        if complete:
            ok = outs <= {"Ok(false)", "Err"} and "Ok(false)" in outs
            saw_current = saw_current or "Ok(false)" in outs
            exp = "Ok(false)"
        else:
            ok = outs <= {"Ok(true)", "Err"}
            exp = "Ok(true) or Err"
        rep.ob("O2.current-iff-both-equal", "%s executed=%s" % (gate.path, ["bb%d:%s" % (b, "equal" if e else "differs") for b, e in assign]), ok,
               "on paths where the header comparisons executed are %s the gate can return %s (expected %s): "
               "an output whose header does not match both the version marker and the grammar hash would be kept" % (
                   {("cmp@bb%d" % b): ("equal" if e else "differs") for b, e in assign}, sorted(outs), exp),
               key="O2:gate-truth-table:%s" % ("".join("E" if e else "D" for _, e in assign) or "none"),
               file=rel, line=gate.line, fn=gate.path)
    rep.ob("O2.current-reachable", gate.path, saw_current,
           "the gate can never answer 'current' (every build would rewrite the output)",
           key="O2:never-current", file=rel, line=gate.line, fn=gate.path)
    # missing output => rebuild; other open errors => Err (never "current")
    return info
