"""C15 -- conditional compilation equals deleting the inactive declarations
(clause: the cfg evaluator and the removal sites)."""
import re

from . import core, symex
from .core import callee_of
from .report import Report

LEVEL = "other"
EXPLANATION = (
    "Symbolic evaluation of the MIR of cond_comp::cfg_active and its helper test_feat_attr: for every return path "
    "the path condition (which string the attribute id was compared equal to) and the returned term are extracted "
    "and compared with Rust's cfg semantics: `not` -> negation of the recursive evaluation of the first argument, "
    "`all` -> Iterator::all over the arguments, `any` -> Iterator::any, `feature = \"x\"` -> membership of x in "
    "session.features, anything else -> false; several cfg attributes on one item are folded with Iterator::all "
    "(conjunction) over exactly the attributes named `cfg`. Removal sites: the predicate is applied (un-negated, as "
    "the retain/filter predicate) to nonterminals, alternatives and extern token conversions, and again when "
    "lowering conversions. Behavioural equality with the pruned grammar is NOT decided.")

TFA = "lalrpop::normalize::cond_comp::cfg_active::test_feat_attr"
CFA = "lalrpop::normalize::cond_comp::cfg_active"


def app(v, name):
    return v and v[0] == "app" and v[1][0] == "fn" and v[1][1].endswith(name)


def closure_body_term(f, clo):
    if not clo or clo[0] != "closure":
        return None
    cb = f.body(clo[1])
    if cb is None:
        return None
    r = symex.term_eval(f, cb, inline=lambda p: False)
    if len({repr(x[0]) for x in r}) != 1:
        return None
    return r[0][0]


def is_recursive_call(v):
    return app(v, "::test_feat_attr")


def run(tier):
    rep = Report("C15", LEVEL, tier)
    rep.explanation = EXPLANATION
    rep.not_decided = "that removing the declarations early is equivalent, for every later pass, to never having written them"
    rep.trusted = ["rustc MIR", "term evaluator (rules/symex.py)"]
    f = core.Facts(core.ensure_facts())
    tfa = f.one("^" + re.escape(TFA) + "$")
    rel = tfa.relfile()
    rets = symex.term_eval(f, tfa, inline=lambda p: False)
    rep.analysed["test_feat_attr_paths"] = len(rets)
    seen = {}
    for r in rets:
        v = r[0]
        keys = {}
        for blk, term, val in r.pc:
            if app(term, "::eq") and len(term[2]) == 2 and term[2][1] and term[2][1][0] == "s":
                truth = not (val == 0)
                keys[term[2][1][1]] = truth
        true_keys = [k for k, t in keys.items() if t]
        if len(true_keys) > 1:
            rep.violation("evaluator.arms-exclusive", str(true_keys), "two id comparisons hold on one path", key="cfg:arms-overlap", file=rel, line=tfa.line)
            continue
        k = true_keys[0] if true_keys else None
        seen.setdefault(k, []).append(v)
        shown = symex.show_term(v)[:140]
        if k is None:
            ok = v == ("c", 0)
            rep.ob("evaluator.unknown-predicate-is-false", "path without a matching id -> %s" % shown, ok,
                   "a cfg predicate that is none of not/all/any/feature evaluates to %s instead of false" % shown, key="cfg:default-not-false", file=rel, line=tfa.line, fn=tfa.path)
        elif k == "not":
            body = closure_body_term(f, v[2][1]) if app(v, "::is_some_and") and len(v[2]) == 2 else None
            ok = body is not None and app(body, "op:Not") and is_recursive_call(body[2][0]) and app(v[2][0], "::first")
            rep.ob("evaluator.not-negates", "id == \"not\" -> %s ; closure = %s" % (shown, symex.show_term(body)), ok,
                   "`not(p)` does not evaluate to the negation of p (first argument)", key="cfg:not", file=rel, line=tfa.line, fn=tfa.path)
        elif k in ("all", "any"):
            body = closure_body_term(f, v[2][1]) if v and v[0] == "app" and len(v[2]) == 2 else None
            ok = app(v, "::" + k) and body is not None and is_recursive_call(body) and app(v[2][0], "::iter")
            rep.ob("evaluator.%s-is-%s" % (k, "conjunction" if k == "all" else "disjunction"), "id == %r -> %s ; closure = %s" % (k, shown, symex.show_term(body)), ok,
                   "`%s(..)` is not evaluated with Iterator::%s over the recursive evaluation of its arguments" % (k, k), key="cfg:%s" % k, file=rel, line=tfa.line, fn=tfa.path)
        elif k == "feature":
            body = closure_body_term(f, v[2][1]) if app(v, "::is_some_and") and len(v[2]) == 2 else None
            feats = v[2][0] if app(v, "::is_some_and") else None
            ok = body is not None and app(body, "BTreeSet::<T, A>::contains") and feats is not None and "features" in symex.show_term(feats) and "arg2" in symex.show_term(feats)
            rep.ob("evaluator.feature-is-membership", "id == \"feature\" -> %s ; closure = %s" % (shown, symex.show_term(body)), ok,
                   "`feature = \"x\"` is not evaluated as membership of x in session.features", key="cfg:feature", file=rel, line=tfa.line, fn=tfa.path)
        else:
            rep.violation("evaluator.known-predicates", k, "unexpected predicate name %r" % k, key="cfg:unknown-name:%s" % k, file=rel, line=tfa.line)
    for k in ("not", "all", "any", "feature"):
        rep.ob("evaluator.handles-%s" % k, TFA, k in seen, "no path handles the predicate `%s`" % k, key="cfg:missing:%s" % k, file=rel, line=tfa.line, fn=tfa.path)
    # ---- top level fold
    cfa = f.one("^" + re.escape(CFA) + "$")
    r = symex.term_eval(f, cfa, inline=lambda p: False)
    ok = False
    detail = [symex.show_term(x[0])[:200] for x in r]
    if len(r) == 1 and app(r[0][0], "::all"):
        it, clo = r[0][0][2]
        filt_ok = app(it, "::filter") and closure_body_term(f, it[2][1]) is not None and app(closure_body_term(f, it[2][1]), "::eq") \
            and "const lalrpop::grammar::consts::CFG" in symex.show_term(it) or (app(it, "::filter") and "\"cfg\"" in symex.show_term(it).replace("'", '"'))
        body = closure_body_term(f, clo)
        # closure#1: Paren(attr) => first().is_some_and(test_feat_attr), else false
        cb = f.body(clo[1]) if clo and clo[0] == "closure" else None
        inner_ok = False
        if cb is not None:
            rr = symex.term_eval(f, cb, inline=lambda p: False)
            vals = [x[0] for x in rr]
            calls = [x for x in vals if app(x, "::is_some_and")]
            inner_ok = len(calls) == 1 and all(x == ("c", 0) for x in vals if x not in calls)
            if inner_ok:
                b2 = closure_body_term(f, calls[0][2][1])
                inner_ok = is_recursive_call(b2)
        ok = bool(filt_ok) and inner_ok
    rep.ob("fold.cfg-attributes-are-conjoined", "cfg_active -> %s" % detail, ok,
           "several #[cfg] attributes on one item are not folded as a conjunction (Iterator::all over the attributes named cfg, each evaluated by test_feat_attr)",
           key="cfg:fold", file=cfa.relfile(), line=cfa.line, fn=cfa.path)
    # ---- removal sites
    sites = []
    for p, b in f.bodies.items():
        if b.unit != "lalrpop-lib" or b.kind == "promoted":
            continue
        for bi, t in b.calls():
            if callee_of(t) == CFA:
                sites.append((b, bi, t))
    rep.floor("applications of cfg_active", len(sites), 4)
    kinds = set()
    for b, bi, t in sites:
        # the predicate value must be returned as is by the retain/filter closure (or gate the item)
        rr = symex.term_eval(f, b, inline=lambda p: False)
        vals = [x[0] for x in rr]
        direct = [x for x in vals if app(x, "cond_comp::cfg_active")]
        negated = [x for x in vals if app(x, "op:Not")]
        others = [x for x in vals if x not in direct and x != ("c", 1)]
        ok = bool(direct) and not negated and not others
        what = symex.show_term(direct[0])[:120] if direct else str([symex.show_term(x)[:60] for x in vals])
        rep.ob("removal.predicate-used-unnegated", "%s -> %s" % (b.path.split("normalize::")[-1], what), ok,
               "the retain/filter predicate at this site is not cfg_active(session, attributes) itself", key="cfg:site:%s" % b.path.split("::", 3)[-1],
               file=b.relfile(), line=t["ln"], fn=b.path)
        s = symex.show_term(direct[0]) if direct else ""
        if "Nonterminal" in s:
            kinds.add("nonterminal")
        elif "lower" in b.path:
            kinds.add("conversion(lower)")
        else:
            kinds.add(b.path.split("::")[-1])
    rep.analysed["removal_sites"] = sorted(kinds)
    return rep
