"""C08 -- generated parsers always terminate and never panic (clause: lexer progress, pull discipline).

Decided: (a) in the built-in lexer's `next`, every token it returns and every trip round its
skip loop has consumed at least one byte (so the token iterator yields at most len(input) items
and terminates); (b) in the driver loop, a new token is pulled only after the previous one was
shifted.  NOT decided: boundedness of reductions / error recovery (depends on the tables) and
absence of panics in the driver (needs table invariants).
"""
import re

from . import core
from .core import callee_of, origins
from .report import Report

LEVEL = "other"
EXPLANATION = (
    "Necessary structural conditions of termination, on the MIR of lalrpop-util: (a) Matcher::next -- let L be "
    "the length added to the start offset to form the value stored into `consumed`; every block that returns "
    "Some(Ok(token)) and every back edge of the skip loop reachable from that store must only be reachable through "
    "the `L != 0` edge of a test of L against 0 (progress), and the remaining text is text[L..]; (b) Parser::parse "
    "-- every back edge to the loop that pulls the next token is dominated by a push onto `states` (one pull per "
    "shift). Breaking (a) makes the lexer yield empty tokens forever for a terminal that matches the empty string.")


def run(tier):
    rep = Report("C08", LEVEL, tier)
    rep.explanation = EXPLANATION
    rep.not_decided = ("bounded number of reductions and termination of error recovery (properties of the generated tables), "
                       "absence of panics (unwrap/index sites guarded by table invariants)")
    rep.assumptions = ["regex-automata's DFA stepping terminates (finite input, one byte per step)"]
    rep.trusted = ["rustc MIR at mir-opt-level=0"]
    f = core.Facts(core.ensure_facts())
    nb = f.one(r"^<lalrpop_util::lexer::Matcher<.*> as std::iter::Iterator>::next$")
    rel = nb.relfile()
    rep.analysed["lexer_next_blocks"] = len(nb.blocks)

    # --- locate the store `self.consumed = start + L`
    stores = []
    for bi, si, s in nb.stmts():
        if s["k"] == "assign" and any(e[0] == "field" and e[2] == "consumed" for e in s["p"]["pr"]):
            # value = Add(consumed-read, L)?
            o = origins(nb, s["r"]["o"]) if s["r"]["k"] == "use" else set()
            for d in o:
                if d[0] == "other" and d[1] >= 0:
                    st = nb.blocks[d[1]]["s"][d[2]]
                    r = st["r"]
                    if r["k"] == "binop" and r["op"].startswith("Add"):
                        oa = origins(nb, r["a"])
                        ob = origins(nb, r["b"])
                        a_is_consumed = any(x[0] == "arg" and "consumed" in x[2] for x in oa)
                        b_is_consumed = any(x[0] == "arg" and "consumed" in x[2] for x in ob)
                        if a_is_consumed != b_is_consumed:
                            L = r["b"] if a_is_consumed else r["a"]
                            if not any(x[0] == bi and x[1] == si for x in stores):
                                stores.append((bi, si, L))
    if not rep.floor("stores of `consumed = start + L` in the lexer", len(stores), 1):
        return rep
    sb, _, Lop = stores[0]
    Lset = core.slice_locals(nb, [Lop])
    rep.analysed["L_locals"] = sorted(Lset)

    # --- progress tests: switch on (L == 0) / (L != 0) / (L > 0)
    prog_edges = []     # edges taken when L != 0
    zero_edges = []
    for bi, bl in enumerate(nb.blocks):
        t = bl["t"]
        if t["k"] != "switch":
            continue
        for d in origins(nb, t["o"]):
            if d[0] != "other" or d[1] < 0:
                continue
            r = nb.blocks[d[1]]["s"][d[2]]["r"]
            if r["k"] != "binop" or r["op"] not in ("Eq", "Ne", "Gt", "Lt"):
                continue
            a, b = r["a"], r["b"]
            la = core.slice_locals(nb, [a]) & Lset
            lb = core.slice_locals(nb, [b]) & Lset
            za, zb = core.const_int(a) == 0, core.const_int(b) == 0
            if not ((la and zb) or (lb and za)):
                continue
            truthy_means_nonzero = r["op"] == "Ne" or (r["op"] == "Gt" and la) or (r["op"] == "Lt" and lb)
            zt = [x for v, x in t["targets"] if v == 0]
            other = t["otherwise"]
            if truthy_means_nonzero:
                prog_edges.append((bi, other))
                zero_edges += [(bi, x) for x in zt]
            else:
                prog_edges += [(bi, x) for x in zt]
                zero_edges.append((bi, other))
    rep.analysed["progress_tests"] = len(prog_edges)
    # blocks reachable from the store WITHOUT passing a progress edge
    reach = nb.reachable(nb.succ[sb] if nb.blocks[sb]["t"]["k"] != "switch" else [sb], removed_edges=set(prog_edges))
    reach |= {sb}
    # (i) token returns
    n_ret = 0
    for bi, si, s in nb.stmts():
        if s["k"] == "assign" and s["p"]["l"] == 0 and not s["p"]["pr"] and s["r"]["k"] == "agg" and s["r"].get("variant") == "Some":
            inner = origins(nb, s["r"]["ops"][0])
            is_ok = False
            for d in inner:
                if d[0] == "agg":
                    r = nb.blocks[d[1]]["s"][d[2]]["r"]
                    if r.get("variant") == "Ok":
                        is_ok = True
            if not is_ok:
                continue
            n_ret += 1
            after_store = bi in nb.reachable([sb])
            ok = (not after_store) or bi not in reach
            rep.ob("lexer.token-return-made-progress", "%s:%d Some(Ok(token))" % (rel, s["ln"]), ok,
                   "the lexer returns a token on a path from `consumed = start + L` that never tests L against 0: a "
                   "non-skip terminal matching the empty string is yielded again and again at the same offset "
                   "(the iterator never ends, the parser loops or exhausts memory)",
                   key="lexer-progress:token-return", file=rel, line=s["ln"], fn=nb.path)
    rep.floor("Some(Ok(token)) returns in the lexer", n_ret, 1)
    # (ii) back edges of the skip loop
    n_back = 0
    for u, h in nb.back_edges():
        if not nb.dominates(h, sb):
            continue     # inner byte loop
        n_back += 1
        ok = u not in reach
        rep.ob("lexer.skip-loop-made-progress", "%s back edge bb%d->bb%d" % (rel, u, h), ok,
               "the skip loop is re-entered on a path from the offset store that never tests L against 0",
               key="lexer-progress:skip-loop", file=rel, line=nb.blocks[u]["t"]["ln"], fn=nb.path)
    rep.floor("back edges of the lexer's skip loop", n_back, 1)
    # (iii) remaining text is text[L..]
    tstores = [(bi, s) for bi, si, s in nb.stmts() if s["k"] == "assign" and any(e[0] == "field" and e[2] == "text" for e in s["p"]["pr"])]
    ok = False
    for bi, s in tstores:
        for d in origins(nb, s["r"]["o"]) if s["r"]["k"] == "use" else []:
            if d[0] == "call" and d[1].endswith("::index"):
                t = nb.blocks[d[2]]["t"]
                for dd in origins(nb, t["args"][1]):
                    if dd[0] == "agg":
                        r = nb.blocks[dd[1]]["s"][dd[2]]["r"]
                        if r.get("adt", "").endswith("RangeFrom") and core.slice_locals(nb, [r["ops"][0]]) & Lset:
                            ok = True
    rep.ob("lexer.text-advances-by-L", "%s self.text = text[L..]" % rel, ok,
           "the remaining text is not the suffix after the L consumed bytes", key="lexer-progress:text-suffix",
           file=rel, line=nb.line, fn=nb.path)

    # --- (b) driver: one pull per shift
    pb = f.one(r"^lalrpop_util::state_machine::Parser::<D, I>::parse$")
    prel = pb.relfile()
    pulls = [bi for bi, t in pb.calls() if (callee_of(t) or "").endswith("Parser::<D, I>::next_token")]
    rep.floor("token pulls in Parser::parse", len(pulls), 1)
    pushes = []
    for bi, t in pb.calls():
        if (callee_of(t) or "").endswith("Vec::<T, A>::push") and t["args"]:
            for d in origins(pb, t["args"][0]):
                if "states" in d[-1]:
                    pushes.append(bi)
    rep.analysed["state_pushes_in_parse"] = len(pushes)
    heads = {h for u, h in pb.back_edges() if any(pb.dominates(h, p) for p in pulls)}
    outer = None
    for h in heads:
        if all(pb.dominates(h, o) or o == h for o in heads if o != h) or outer is None:
            pass
    # the header that immediately encloses the pull: the one dominated by all other candidate headers
    cands = [h for h in heads]
    cands.sort(key=lambda h: len(pb.dom.get(h, ())), reverse=True)
    if cands and pulls:
        outer = cands[0]
        n = 0
        for u, h in pb.back_edges():
            if h != outer:
                continue
            n += 1
            ok = any(pb.dominates(p, u) for p in pushes)
            rep.ob("driver.pull-only-after-shift", "%s back edge bb%d->bb%d" % (prel, u, h), ok,
                   "the driver pulls the next token on a path that did not push a state (the current token is dropped or re-read)",
                   key="driver:pull-without-shift", file=prel, line=pb.blocks[u]["t"]["ln"], fn=pb.path)
        rep.floor("back edges to the token-pull loop", n, 1)
    else:
        rep.anchor_missing("token-pull loop in Parser::parse")
    # --- (c) recovery only resumes in a state that the simulation says will accept the lookahead
    er = f.one(r"^lalrpop_util::state_machine::Parser::<D, I>::error_recovery$")
    acc = [(bi, t) for bi, t in er.calls() if (callee_of(t) or "").endswith("Parser::<D, I>::accepts")]
    aggs = [bi for bi, si, s in er.stmts() if s["k"] == "assign" and s["r"]["k"] == "agg" and s["r"].get("adt") == "lalrpop_util::ErrorRecovery"]
    ok = False
    if acc and aggs:
        abi = acc[0][0]
        for sb, bl in enumerate(er.blocks):
            t = bl["t"]
            if t["k"] == "switch" and any(d[0] == "call" and d[2] == abi for d in origins(er, t["o"])):
                true_t = t["otherwise"]
                ok = all(er.dominates(true_t, g) for g in aggs) and true_t not in [x for v, x in t["targets"] if v == 0]
    rep.ob("recovery.resumes-only-where-lookahead-is-accepted", "error_recovery: ErrorRecovery{..} dominated by accepts(..) == true", ok,
           "error recovery can push the error state without the accepts() simulation having succeeded: with LALR/lane-table tables the parser can "
           "reduce, fail on the same lookahead and recover again forever", key="recovery-unguarded", file=er.relfile(), line=er.line, fn=er.path)
    rep.floor("accepts() calls in error_recovery", len(acc), 1)
    from . import dfaconfig
    dfaconfig.check(rep, f, "dfa-config", "a valid input makes the generated lexer panic (or lex from a stale state) once the token set is large enough")
    return rep
