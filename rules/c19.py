"""C19 -- accepted grammars compile (clause: generated code demands only `Clone` of locations).

`ParserDefinition::Location: Clone + Debug` is the whole contract for a user's location type.
Every template that takes a location out of a symbol / lookahead triple (`.0`, `.2`) or out of a
`&Location` parameter (`*x`) must therefore clone it: moving it requires `Copy`, and the generated
module fails to compile (E0507/E0382) for a merely-Clone location type.
"""
import re

from . import core
from .core import callee_of, callee_args, origins
from . import tmplutil as tu
from .report import Report

LEVEL = "other"
EXPLANATION = (
    "Deviance rule over all code-emission templates (530 rust! sites): a tuple projection `.0`/`.2` of a symbol, "
    "token or lookahead triple, or a dereference `*x` of a `&Location` parameter, must be followed by `.clone()` "
    "(the idiom used at the majority of sites); the sibling backend's twin template is the reference. Type inference "
    "correctness and compilation of arbitrary grammars are NOT decided.")

PROJ = re.compile(r"\.\s*([02])\b(?!\s*\.\s*clone\s*\(\s*\))")
# `.0`/`.2` that are not location projections: tuple struct fields of tokens / state pairs
NOT_LOCATION = re.compile(r"Token\(|\.1\b")


def run(tier):
    rep = Report("C19", LEVEL, tier)
    rep.explanation = EXPLANATION
    rep.not_decided = "type inference, generic/lifetime plumbing, compilation of the whole generated module for arbitrary grammars"
    rep.trusted = ["syn parse of the generator sources"]
    f = core.Facts(core.ensure_facts())
    T = f.tmpl
    gen = [m for m in T.macros if m["macro"] == "rust" and m["fmt"]]
    rep.floor("code-emission templates", len(gen), 500)
    n_proj = n_ok = 0
    for m in gen:
        c = tu.cooked(m["fmt"])
        # (a) tuple projections .0 / .2
        for mm in re.finditer(r"\.\s*([02])\b", c):
            # skip numeric literals like `1.0` and ranges
            pre = c[:mm.start()]
            if re.search(r"\d$", pre):
                continue
            n_proj += 1
            cloned = re.match(r"\s*\.\s*clone\s*\(\s*\)", c[mm.end():]) is not None
            # `.cloned()` on an Option<&L> / pattern-bound moves of the whole triple are fine
            if cloned:
                n_ok += 1
            base = re.search(r"([\w·]+)\s*$", pre)
            rep.ob("location-projection-is-cloned", "%s `%s`" % (tu.short(m), c.strip()[:100]), cloned,
                   "the template moves `%s.%s` out of a triple: requires a Copy location type although only Clone is promised "
                   "(generated code fails with E0507/E0382 for a non-Copy Location)" % (base.group(1) if base else "?", mm.group(1)),
                   key="loc-move:%s:%s:%s" % (m["file"].split("/")[-1], m["fn"].split("::")[-1], "." + mm.group(1)),
                   file=m["file"], line=m["line"], fn=m["fn"])
        # (b) deref of a `&Location` parameter returned by value
        if re.match(r"^\s*\*\s*·\w+·look(ahead|behind)\s*$", c):
            n_proj += 1
            rep.violation("location-deref-is-cloned", "%s `%s`" % (tu.short(m), c.strip()),
                          "the template returns `%s`, moving a Location out of a shared reference: E0507 for a non-Copy Location "
                          "(any grammar using @L/@R with such a location type)" % c.strip(),
                          key="loc-deref-move:%s:%s" % (m["fn"].split("::")[-1], re.sub(r"[^a-z]", "", c)),
                          file=m["file"], line=m["line"], fn=m["fn"])
    type_plumbing_rules(rep, f)
    rep.analysed["location_projection_sites"] = n_proj
    rep.analysed["cloned"] = n_ok
    rep.floor("location projection sites", n_proj, 12)
    return rep


def type_plumbing_rules(rep, f):
    """Two necessary conditions of `inferred types agree with the generated code`:
    (b) the type parameters given to the generated symbol enums are exactly those free in the symbol types (a kept
        parameter that no field mentions is E0392): the set used to filter grammar.type_parameters must derive from the
        `tys` argument only, never from grammar.where_clauses;
    (c) every traversal of a pattern that reports `<T>` bindings visits every pattern form that can contain one
        (Enum, Struct, Tuple, TupleStruct, Choose): no such variant may fall into a wildcard arm."""
    fb = f.find(r"codegen::base::CodeGenerator::<.*>::filter_type_parameters_and_where_clauses$")
    if len(fb) != 1:
        rep.anchor_missing("filter_type_parameters_and_where_clauses")
    else:
        b = fb[0]
        n = 0
        for bi, t in b.calls():
            if (callee_of(t) or "") != "std::iter::Iterator::filter" or "TypeParameter" not in callee_args(t):
                continue
            recv = origins(b, t["args"][0], transparent=lambda c: "all" if c else None, through_agg=True)
            if not any(d[0] == "arg" and d[1] == 1 and "type_parameters" in d[2] for d in recv):
                continue
            n += 1
            prov = origins(b, t["args"][1], transparent=lambda c: "all" if c else None, through_agg=True, record_calls=True, through_mut=True)
            names = set()
            for d in prov:
                if d[0] == "arg":
                    names |= set(d[2]) | {"arg%d" % d[1]}
            ok = "where_clauses" not in names and "arg2" in names
            rep.ob("type-params.kept-iff-free-in-symbol-types", "%s filter over grammar.type_parameters: predicate derives from %s" % (b.path.split("::")[-1], sorted(x for x in names if x.startswith("arg") or x == "where_clauses")), ok,
                   "the set of type parameters kept for the generated symbol enums also depends on grammar.where_clauses: a parameter that occurs only in a "
                   "bound (e.g. `C` in `T: FromCtx<C>`) is declared on `enum __Symbol<..>` without being used by any variant (E0392)",
                   key="type-params-from-where-clauses", file=b.relfile(), line=t["ln"], fn=b.path)
        rep.floor("filters over grammar.type_parameters", n, 1)
    pk = f.adts.get("lalrpop::grammar::pattern::PatternKind")
    if pk is None:
        rep.anchor_missing("PatternKind")
        return
    carriers = {i: v["name"] for i, v in enumerate(pk["variants"]) if any(("Pattern<" in fl["ty"]) or fl["ty"].strip() == "T" for fl in v["fields"])}
    n = 0
    for p, b in f.bodies.items():
        if b.unit != "lalrpop-lib" or b.kind == "promoted" or not p.startswith("lalrpop::grammar::pattern::"):
            continue
        if not any("dyn for<" in b.local_ty(i) or "dyn std::ops::FnMut" in b.local_ty(i) or "dyn FnMut" in b.local_ty(i) for i in range(1, b.argc + 1)):
            continue
        for sb, bl in enumerate(b.blocks):
            t = bl["t"]
            if t["k"] != "switch" or bl["cleanup"]:
                continue
            l = core.op_local(t["o"])
            is_pk = False
            for _, si, d in (b.defs.get(l, []) if l is not None else []):
                if si != "t" and d["r"]["k"] == "discr":
                    pl = d["r"]["p"]
                    ty = b.local_ty(pl["l"])
                    last_field_ty = [e[4] for e in pl["pr"] if e[0] == "field"]
                    if "PatternKind<" in (last_field_ty[-1] if last_field_ty else ty):
                        is_pk = True
            if not is_pk:
                continue
            n += 1
            tg = {v: x for v, x in t["targets"]}
            oth = t["otherwise"]
            for vi, name in carriers.items():
                tgt = tg.get(vi, oth)
                own = vi in tg and (tgt != oth or b.blocks[oth]["t"]["k"] == "unreachable")
                # the arm must call something (recursion / the callback)
                region = {x for x in range(len(b.blocks)) if b.dominates(tgt, x)} if own else set()
                calls = [callee_of(b.blocks[x]["t"]) for x in region if b.blocks[x]["t"]["k"] == "call"]
                ok = own and bool(calls)
                rep.ob("bindings.traversal-covers-%s" % name, "%s: PatternKind::%s" % (p.split("pattern::")[-1], name), ok,
                       "a traversal that reports the `<T>` bindings of a pattern does not descend into PatternKind::%s: type inference misses bindings in "
                       "such patterns (e.g. `Tok::Num { value: <i64>, .. }`) while code generation still extracts them (E0308 in the generated module)" % name,
                       key="pattern-traversal:%s:%s" % (p.split("::")[-1], name), file=b.relfile(), line=t["ln"], fn=p)
    rep.floor("pattern traversals with a binding callback", n, 1)
