"""C19 -- accepted grammars compile (clause: generated code demands only `Clone` of locations).

`ParserDefinition::Location: Clone + Debug` is the whole contract for a user's location type.
Every template that takes a location out of a symbol / lookahead triple (`.0`, `.2`) or out of a
`&Location` parameter (`*x`) must therefore clone it: moving it requires `Copy`, and the generated
module fails to compile (E0507/E0382) for a merely-Clone location type.
"""
import re

from . import core
from . import tmplutil as tu
from .report import Report

LEVEL = "other"
EXPLANATION = (
    "Deviance rule over all code-emission templates (530 rust! sites): a tuple projection `.0`/`.2` of a symbol, "
    "token or lookahead triple, or a dereference `*x` of a `&Location` parameter, must be followed by `.clone()` "
    "(the idiom used at the majority of sites); the sibling backend's twin template is the reference. Type inference "
    "correctness and compilation of arbitrary grammars are NOT decided.")

PROJ = re.compile(r"\.\s*([02])\b(?!\s*\.\s*clone\s*\(\s*\))")
# `.0`/`.2` that are not location projections: tuple struct fields of tokens / state pairs
NOT_LOCATION = re.compile(r"Token\(|\.1\b")


def run(tier):
    rep = Report("C19", LEVEL, tier)
    rep.explanation = EXPLANATION
    rep.not_decided = "type inference, generic/lifetime plumbing, compilation of the whole generated module for arbitrary grammars"
    rep.trusted = ["syn parse of the generator sources"]
    f = core.Facts(core.ensure_facts())
    T = f.tmpl
    gen = [m for m in T.macros if m["macro"] == "rust" and m["fmt"]]
    rep.floor("code-emission templates", len(gen), 500)
    n_proj = n_ok = 0
    for m in gen:
        c = tu.cooked(m["fmt"])
        # (a) tuple projections .0 / .2
        for mm in re.finditer(r"\.\s*([02])\b", c):
            # skip numeric literals like `1.0` and ranges
            pre = c[:mm.start()]
            if re.search(r"\d$", pre):
                continue
            n_proj += 1
            cloned = re.match(r"\s*\.\s*clone\s*\(\s*\)", c[mm.end():]) is not None
            # `.cloned()` on an Option<&L> / pattern-bound moves of the whole triple are fine
            if cloned:
                n_ok += 1
            base = re.search(r"([\w·]+)\s*$", pre)
            rep.ob("location-projection-is-cloned", "%s `%s`" % (tu.short(m), c.strip()[:100]), cloned,
                   "the template moves `%s.%s` out of a triple: requires a Copy location type although only Clone is promised "
                   "(generated code fails with E0507/E0382 for a non-Copy Location)" % (base.group(1) if base else "?", mm.group(1)),
                   key="loc-move:%s:%s:%s" % (m["file"].split("/")[-1], m["fn"].split("::")[-1], "." + mm.group(1)),
                   file=m["file"], line=m["line"], fn=m["fn"])
        # (b) deref of a `&Location` parameter returned by value
        if re.match(r"^\s*\*\s*·\w+·look(ahead|behind)\s*$", c):
            n_proj += 1
            rep.violation("location-deref-is-cloned", "%s `%s`" % (tu.short(m), c.strip()),
                          "the template returns `%s`, moving a Location out of a shared reference: E0507 for a non-Copy Location "
                          "(any grammar using @L/@R with such a location type)" % c.strip(),
                          key="loc-deref-move:%s:%s" % (m["fn"].split("::")[-1], re.sub(r"[^a-z]", "", c)),
                          file=m["file"], line=m["line"], fn=m["fn"])
    rep.analysed["location_projection_sites"] = n_proj
    rep.analysed["cloned"] = n_ok
    rep.floor("location projection sites", n_proj, 12)
    return rep
