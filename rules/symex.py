"""A small abstract interpreter over MIR facts (no execution of the program: the CFG of one body
is walked with an abstract store of known constants / enum variants; unknown branches fork).

Used to make path rules path-sensitive where drop flags, `||`/`&&` lowering or enum matches
would otherwise produce infeasible paths.
"""
import itertools

from . import core

UNK = None
FACTS = None     # set by term_eval: lets ev_op look through promoted constants


def ev_op(op, st):
    if op["k"] == "const":
        v = op["v"]
        if "bool" in v:
            return ("c", 1 if v["bool"] else 0)
        if "int" in v:
            return ("c", v["int"])
        if "str" in v:
            return ("s", v["str"])
        if "promoted" in v and FACTS is not None:
            pb = FACTS.body("%s::{promoted#%d}" % (v["of"], v["promoted"]))
            if pb is not None:
                for path, pst, kind in explore(pb, None, max_paths=4):
                    if kind == "return":
                        return strip_ref(pst.get(0, UNK))
        if "unevaluated" in v:
            return ("sym", "const " + v["unevaluated"])
        return UNK
    if op["k"] in ("copy", "move"):
        p = op["p"]
        return ev_place(p, st)
    return UNK


SYMBOLIC = ("sym", "proj", "app")


def ev_place(p, st):
    v = st.get(p["l"], UNK)
    for e in p["pr"]:
        if v is UNK:
            return UNK
        if e[0] == "deref":
            if v[0] == "ref":
                v = v[1]
            elif v[0] in SYMBOLIC or v[0] in ("s", "c"):
                pass  # references are transparent for symbolic terms and constants (&'static str)
            else:
                return UNK
        elif e[0] == "downcast":
            if v[0] == "adt":
                if v[2] == e[2]:
                    continue
                return UNK
            if v[0] in SYMBOLIC:
                v = ("proj", v, ("as", e[1]))
                continue
            return UNK
        elif e[0] == "field":
            if v[0] in ("adt", "tuple", "closure") and e[1] < len(v[-1]):
                v = v[-1][e[1]]
            elif v[0] in SYMBOLIC:
                v = ("proj", v, ("field", e[2]))
            else:
                return UNK
        else:
            return UNK
    return v


def ev_rvalue(r, st):
    k = r["k"]
    if k == "use":
        return ev_op(r["o"], st)
    if k == "unop":
        v = ev_op(r["o"], st)
        if v and v[0] == "c" and r["op"] == "Not":
            return ("c", 0 if v[1] else 1)
        if v and v[0] in SYMBOLIC:
            return ("app", ("fn", "op:" + r["op"]), (v,))
        return UNK
    if k == "binop":
        a, b = ev_op(r["a"], st), ev_op(r["b"], st)
        if a and b and a[0] == "c" and b[0] == "c":
            op = r["op"]
            try:
                res = {"Eq": a[1] == b[1], "Ne": a[1] != b[1], "Lt": a[1] < b[1], "Le": a[1] <= b[1],
                       "Gt": a[1] > b[1], "Ge": a[1] >= b[1]}.get(op)
                if res is not None:
                    return ("c", 1 if res else 0)
                res = {"Add": a[1] + b[1], "Sub": a[1] - b[1], "Mul": a[1] * b[1],
                       "BitAnd": a[1] & b[1], "BitOr": a[1] | b[1], "BitXor": a[1] ^ b[1]}.get(op)
                if res is not None:
                    return ("c", res)
            except Exception:
                return UNK
        if a and b and (a[0] in SYMBOLIC or b[0] in SYMBOLIC):
            op = r["op"]
            if op.endswith("WithOverflow"):
                # (value, overflowed?) pair; the value is the plain operation
                return ("tuple", (("app", ("fn", "op:" + op[:-len("WithOverflow")]), (a, b)), UNK))
            return ("app", ("fn", "op:" + op), (a, b))
        return UNK
    if k == "agg":
        vals = tuple(ev_op(o, st) for o in r["ops"])
        if r["ak"] == "adt":
            return ("adt", r["adt"] + "::" + r["variant"], r["vidx"], vals)
        if r["ak"] == "tuple":
            return ("tuple", vals)
        if r["ak"] == "closure":
            return ("closure", r["closure"], vals)
        return UNK
    if k == "discr":
        v = ev_place(r["p"], st)
        if v and v[0] == "adt":
            return ("c", v[2])
        if v and v[0] in SYMBOLIC:
            return ("app", ("fn", "discr"), (v,))
        return UNK
    if k in ("ref",):
        v = ev_place(r["p"], st)
        if v is UNK:
            return UNK
        return v if v[0] in SYMBOLIC else ("ref", v)
    if k == "copyforderef":
        return ev_place(r["p"], st)
    if k == "cast":
        v = ev_op(r["o"], st)
        # numeric casts are transparent for shape checks (width is checked separately)
        return v if v and (v[0] == "c" or v[0] in SYMBOLIC) else UNK
    return UNK


def freeze(st):
    return tuple(sorted((str(k), repr(v)) for k, v in st.items() if v is not UNK))


def explore(body, call_hook=None, start=0, state=None, max_paths=20000, max_visits=3,
            on_block=None):
    """Enumerate abstract paths from `start` to return/diverge.
    Yields (blocks_on_path, final_state, exit_kind) with exit_kind in {'return','diverge','cut'}.
    call_hook(bi, term, state) may return a value for the call's destination (or UNK).
    A path is cut when a block is entered more than `max_visits` times (loops)."""
    results = []
    stack = [(start, dict(state or {}), [], {})]
    npaths = 0
    while stack:
        b, st, path, visits = stack.pop()
        while True:
            visits = dict(visits)
            visits[b] = visits.get(b, 0) + 1
            if visits[b] > max_visits:
                results.append((path + [b], st, "cut"))
                break
            path = path + [b]
            bl = body.blocks[b]
            for s in bl["s"]:
                if s["k"] == "assign":
                    v = ev_rvalue(s["r"], st)
                    p = s["p"]
                    if not p["pr"]:
                        st[p["l"]] = v
                    else:
                        # partial store: forget the base
                        st[p["l"]] = UNK
                elif s["k"] == "setdiscr":
                    st[s["p"]["l"]] = UNK
            if on_block:
                on_block(b, st)
            t = bl["t"]
            k = t["k"]
            if k == "return":
                results.append((path, st, "return"))
                break
            if k in ("unreachable", "resume", "terminate", "otherterm", "tailcall"):
                results.append((path, st, "diverge"))
                break
            if k == "goto":
                b = t["t"]
                continue
            if k == "drop":
                b = t["t"]
                continue
            if k == "assert":
                b = t["t"]
                continue
            if k == "call":
                v = UNK
                if call_hook:
                    v = call_hook(b, t, st)
                d = t["dest"]
                if not d["pr"]:
                    st[d["l"]] = v
                else:
                    st[d["l"]] = UNK
                # arguments passed by &mut may be modified: forget locals whose address escapes
                for a in t["args"]:
                    if a["k"] in ("copy", "move") and not a["p"]["pr"]:
                        av = st.get(a["p"]["l"], UNK)
                        if av and av[0] == "ref":
                            pass
                if t["t"] is None:
                    results.append((path, st, "diverge"))
                    break
                b = t["t"]
                continue
            if k == "switch":
                v = ev_op(t["o"], st)
                if v and v[0] == "c":
                    tgt = None
                    for val, x in t["targets"]:
                        if val == v[1]:
                            tgt = x
                    if tgt is None:
                        tgt = t["otherwise"]
                    b = tgt
                    continue
                # fork
                succ = []
                seen = set()
                for val, x in t["targets"]:
                    if x not in seen:
                        succ.append((x, val))
                        seen.add(x)
                if t["otherwise"] not in seen:
                    succ.append((t["otherwise"], None))
                # refine: when switching on a bare bool/int local, record the value on each edge
                ol = core.op_local(t["o"])
                pc = st.get("__pc", ())
                known = [vv for _, vv in succ if vv is not None]
                for x, val in succ[1:]:
                    st2 = dict(st)
                    st2["__pc"] = pc + ((b, v, val if val is not None else ("not", tuple(known))),)
                    if ol is not None and val is not None:
                        st2[ol] = ("c", val)
                    npaths += 1
                    if npaths < max_paths:
                        stack.append((x, st2, path, visits))
                x, val = succ[0]
                st["__pc"] = pc + ((b, v, val if val is not None else ("not", tuple(known))),)
                if ol is not None and val is not None:
                    st[ol] = ("c", val)
                b = x
                continue
            results.append((path, st, "diverge"))
            break
    return results


def show(v):
    if v is UNK:
        return "?"
    if v[0] == "c":
        return str(v[1])
    if v[0] == "adt":
        name = v[1].split("::")[-1]
        return "%s(%s)" % (name, ",".join(show(x) for x in v[3]))
    return v[0]


def truth_table(body, atoms):
    """atoms: {block: 'eq'|'ne'} comparison calls returning bool.
    Returns {assignment: set(outcomes)} where assignment = tuple((block, equal?)...) and an outcome
    is 'Ok(true)', 'Ok(false)', 'Ok(?)', 'Err', '?'.  Only paths that executed every atom are
    tabulated under their assignment; paths that skipped an atom are tabulated under the key
    with that atom omitted (so Ok(false) without both comparisons is visible)."""
    blocks = sorted(atoms)
    table = {}
    for bits in itertools.product([True, False], repeat=len(blocks)):
        assign = dict(zip(blocks, bits))

        def hook(bi, t, st):
            if bi in assign:
                eq = assign[bi]
                val = eq if atoms[bi] == "eq" else (not eq)
                return ("c", 1 if val else 0)
            return UNK

        for path, st, kind in explore(body, hook):
            if kind != "return":
                continue
            executed = tuple((b, assign[b]) for b in blocks if b in path)
            r = st.get(0, UNK)
            if r and r[0] == "adt":
                n = r[1].split("::")[-1]
                if n == "Ok":
                    pv = r[3][0] if r[3] else UNK
                    out = "Ok(?)" if not pv or pv[0] != "c" else ("Ok(true)" if pv[1] else "Ok(false)")
                else:
                    out = "Err"
            else:
                # _0 assigned by a call (e.g. from_residual) => error propagation
                out = "Err" if any((core.callee_of(body.blocks[b]["t"]) or "").find("FromResidual") >= 0
                                   for b in path if body.blocks[b]["t"]["k"] == "call") else "?"
            table.setdefault(executed, set()).add(out)
    return table


class Ret(tuple):
    """(value, path) with the path condition attached as .pc = ((block, operand_term, value)...)"""
    def __new__(cls, v, path, pc):
        o = tuple.__new__(cls, (v, path))
        o.pc = pc
        return o


def strip_ref(v):
    while v and v[0] == "ref":
        v = v[1]
    return v


def term_eval(facts, body, args=None, inline=lambda path: True, depth=0, max_paths=64):
    """Symbolically evaluate `body` with symbolic arguments; returns a list of
    (return_value_term, path_blocks) for every abstract return path.  Calls of closures / local
    functions accepted by `inline` are evaluated recursively (must have a single return path,
    otherwise the result is an opaque application term)."""
    global FACTS
    FACTS = facts
    st0 = {}
    for i in range(1, body.argc + 1):
        st0[i] = args[i - 1] if args else ("sym", "arg%d" % i)

    def hook(bi, t, st):
        c = core.callee_of(t)
        decl = core.callee_decl(t)
        vals = [strip_ref(ev_op(a, st)) for a in t["args"]]
        if decl in ("std::ops::FnOnce::call_once", "std::ops::FnMut::call_mut", "std::ops::Fn::call") or \
                (c and "{closure#" in c.split("::")[-1]):
            f = vals[0] if vals else UNK
            a = vals[1] if len(vals) > 1 else UNK
            targs = a[1] if a and a[0] == "tuple" else (a,)
            cb = None
            if f and f[0] == "closure":
                cb = facts.body(f[1])
            elif c and facts.body(c) is not None and "{closure#" in c:
                cb = facts.body(c)
            if cb is not None and depth < 6 and inline(cb.path):
                r = term_eval(facts, cb, [f] + list(targs), inline, depth + 1, max_paths)
                outs = {repr(x[0]) for x in r}
                if len(r) >= 1 and len(outs) == 1:
                    return r[0][0]
                return ("app", ("multi", cb.path), tuple(targs))
            if f is UNK:
                return UNK
            return ("app", f, tuple(targs))
        if c and facts.body(c) is not None and depth < 6 and inline(c) and "{closure#" not in c and c != body.path:
            r = term_eval(facts, facts.body(c), vals, inline, depth + 1, max_paths)
            outs = {repr(x[0]) for x in r}
            if len(r) >= 1 and len(outs) == 1:
                return r[0][0]
            return ("app", ("multi", c), tuple(vals))
        return ("app", ("fn", c or decl or "?"), tuple(vals))

    res = []
    for path, st, kind in explore(body, hook, state=st0, max_paths=max_paths):
        if kind == "return":
            res.append(Ret(st.get(0, UNK), path, st.get("__pc", ())))
    return res


def show_term(v):
    if v is UNK:
        return "?"
    k = v[0]
    if k == "c":
        return str(v[1])
    if k == "s":
        return repr(v[1])
    if k == "sym":
        return v[1]
    if k == "proj":
        e = v[2]
        if e[0] == "as":
            return "(%s as %s)" % (show_term(v[1]), e[1])
        return "%s.%s" % (show_term(v[1]), e[1])
    if k == "app":
        return "%s(%s)" % (show_term(v[1]), ", ".join(show_term(x) for x in v[2]))
    if k == "fn":
        return v[1]
    if k == "multi":
        return "<multi-path %s>" % v[1]
    if k == "adt":
        return "%s{%s}" % (v[1].split("::")[-1], ", ".join(show_term(x) for x in v[3]))
    if k == "tuple":
        return "(%s)" % ", ".join(show_term(x) for x in v[1])
    if k == "closure":
        return "closure<%s>[%s]" % (v[1].split("::")[-1], ", ".join(show_term(x) for x in v[2]))
    if k == "ref":
        return "&" + show_term(v[1])
    return str(v)
