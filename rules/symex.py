"""A small abstract interpreter over MIR facts (no execution of the program: the CFG of one body
is walked with an abstract store of known constants / enum variants; unknown branches fork).

Used to make path rules path-sensitive where drop flags, `||`/`&&` lowering or enum matches
would otherwise produce infeasible paths.
"""
import itertools

from . import core

UNK = None


def ev_op(op, st):
    if op["k"] == "const":
        v = op["v"]
        if "bool" in v:
            return ("c", 1 if v["bool"] else 0)
        if "int" in v:
            return ("c", v["int"])
        if "str" in v:
            return ("s", v["str"])
        return UNK
    if op["k"] in ("copy", "move"):
        p = op["p"]
        return ev_place(p, st)
    return UNK


def ev_place(p, st):
    v = st.get(p["l"], UNK)
    for e in p["pr"]:
        if v is UNK:
            return UNK
        if e[0] == "deref":
            if v[0] == "ref":
                v = v[1]
            else:
                return UNK
        elif e[0] == "downcast":
            if v[0] == "adt" and v[2] == e[2]:
                continue
            return UNK
        elif e[0] == "field":
            if v[0] in ("adt", "tuple") and e[1] < len(v[-1]):
                v = v[-1][e[1]]
            else:
                return UNK
        else:
            return UNK
    return v


def ev_rvalue(r, st):
    k = r["k"]
    if k == "use":
        return ev_op(r["o"], st)
    if k == "unop":
        v = ev_op(r["o"], st)
        if v and v[0] == "c" and r["op"] == "Not":
            return ("c", 0 if v[1] else 1)
        return UNK
    if k == "binop":
        a, b = ev_op(r["a"], st), ev_op(r["b"], st)
        if a and b and a[0] == "c" and b[0] == "c":
            op = r["op"]
            try:
                res = {"Eq": a[1] == b[1], "Ne": a[1] != b[1], "Lt": a[1] < b[1], "Le": a[1] <= b[1],
                       "Gt": a[1] > b[1], "Ge": a[1] >= b[1]}.get(op)
                if res is not None:
                    return ("c", 1 if res else 0)
                res = {"Add": a[1] + b[1], "Sub": a[1] - b[1], "Mul": a[1] * b[1],
                       "BitAnd": a[1] & b[1], "BitOr": a[1] | b[1], "BitXor": a[1] ^ b[1]}.get(op)
                if res is not None:
                    return ("c", res)
            except Exception:
                return UNK
        return UNK
    if k == "agg":
        vals = tuple(ev_op(o, st) for o in r["ops"])
        if r["ak"] == "adt":
            return ("adt", r["adt"] + "::" + r["variant"], r["vidx"], vals)
        if r["ak"] == "tuple":
            return ("tuple", vals)
        return UNK
    if k == "discr":
        v = ev_place(r["p"], st)
        if v and v[0] == "adt":
            return ("c", v[2])
        return UNK
    if k in ("ref",):
        v = ev_place(r["p"], st)
        return ("ref", v) if v is not UNK else UNK
    if k == "copyforderef":
        return ev_place(r["p"], st)
    if k == "cast":
        v = ev_op(r["o"], st)
        return v if v and v[0] == "c" else UNK
    return UNK


def freeze(st):
    return tuple(sorted((k, repr(v)) for k, v in st.items() if v is not UNK))


def explore(body, call_hook=None, start=0, state=None, max_paths=20000, max_visits=3,
            on_block=None):
    """Enumerate abstract paths from `start` to return/diverge.
    Yields (blocks_on_path, final_state, exit_kind) with exit_kind in {'return','diverge','cut'}.
    call_hook(bi, term, state) may return a value for the call's destination (or UNK).
    A path is cut when a block is entered more than `max_visits` times (loops)."""
    results = []
    stack = [(start, dict(state or {}), [], {})]
    npaths = 0
    while stack:
        b, st, path, visits = stack.pop()
        while True:
            visits = dict(visits)
            visits[b] = visits.get(b, 0) + 1
            if visits[b] > max_visits:
                results.append((path + [b], st, "cut"))
                break
            path = path + [b]
            bl = body.blocks[b]
            for s in bl["s"]:
                if s["k"] == "assign":
                    v = ev_rvalue(s["r"], st)
                    p = s["p"]
                    if not p["pr"]:
                        st[p["l"]] = v
                    else:
                        # partial store: forget the base
                        st[p["l"]] = UNK
                elif s["k"] == "setdiscr":
                    st[s["p"]["l"]] = UNK
            if on_block:
                on_block(b, st)
            t = bl["t"]
            k = t["k"]
            if k == "return":
                results.append((path, st, "return"))
                break
            if k in ("unreachable", "resume", "terminate", "otherterm", "tailcall"):
                results.append((path, st, "diverge"))
                break
            if k == "goto":
                b = t["t"]
                continue
            if k == "drop":
                b = t["t"]
                continue
            if k == "assert":
                b = t["t"]
                continue
            if k == "call":
                v = UNK
                if call_hook:
                    v = call_hook(b, t, st)
                d = t["dest"]
                if not d["pr"]:
                    st[d["l"]] = v
                else:
                    st[d["l"]] = UNK
                # arguments passed by &mut may be modified: forget locals whose address escapes
                for a in t["args"]:
                    if a["k"] in ("copy", "move") and not a["p"]["pr"]:
                        av = st.get(a["p"]["l"], UNK)
                        if av and av[0] == "ref":
                            pass
                if t["t"] is None:
                    results.append((path, st, "diverge"))
                    break
                b = t["t"]
                continue
            if k == "switch":
                v = ev_op(t["o"], st)
                if v and v[0] == "c":
                    tgt = None
                    for val, x in t["targets"]:
                        if val == v[1]:
                            tgt = x
                    if tgt is None:
                        tgt = t["otherwise"]
                    b = tgt
                    continue
                # fork
                succ = []
                seen = set()
                for val, x in t["targets"]:
                    if x not in seen:
                        succ.append((x, val))
                        seen.add(x)
                if t["otherwise"] not in seen:
                    succ.append((t["otherwise"], None))
                # refine: when switching on a bare bool/int local, record the value on each edge
                ol = core.op_local(t["o"])
                for x, val in succ[1:]:
                    st2 = dict(st)
                    if ol is not None and val is not None:
                        st2[ol] = ("c", val)
                    npaths += 1
                    if npaths < max_paths:
                        stack.append((x, st2, path, visits))
                x, val = succ[0]
                if ol is not None and val is not None:
                    st[ol] = ("c", val)
                b = x
                continue
            results.append((path, st, "diverge"))
            break
    return results


def show(v):
    if v is UNK:
        return "?"
    if v[0] == "c":
        return str(v[1])
    if v[0] == "adt":
        name = v[1].split("::")[-1]
        return "%s(%s)" % (name, ",".join(show(x) for x in v[3]))
    return v[0]


def truth_table(body, atoms):
    """atoms: {block: 'eq'|'ne'} comparison calls returning bool.
    Returns {assignment: set(outcomes)} where assignment = tuple((block, equal?)...) and an outcome
    is 'Ok(true)', 'Ok(false)', 'Ok(?)', 'Err', '?'.  Only paths that executed every atom are
    tabulated under their assignment; paths that skipped an atom are tabulated under the key
    with that atom omitted (so Ok(false) without both comparisons is visible)."""
    blocks = sorted(atoms)
    table = {}
    for bits in itertools.product([True, False], repeat=len(blocks)):
        assign = dict(zip(blocks, bits))

        def hook(bi, t, st):
            if bi in assign:
                eq = assign[bi]
                val = eq if atoms[bi] == "eq" else (not eq)
                return ("c", 1 if val else 0)
            return UNK

        for path, st, kind in explore(body, hook):
            if kind != "return":
                continue
            executed = tuple((b, assign[b]) for b in blocks if b in path)
            r = st.get(0, UNK)
            if r and r[0] == "adt":
                n = r[1].split("::")[-1]
                if n == "Ok":
                    pv = r[3][0] if r[3] else UNK
                    out = "Ok(?)" if not pv or pv[0] != "c" else ("Ok(true)" if pv[1] else "Ok(false)")
                else:
                    out = "Err"
            else:
                # _0 assigned by a call (e.g. from_residual) => error propagation
                out = "Err" if any((core.callee_of(body.blocks[b]["t"]) or "").find("FromResidual") >= 0
                                   for b in path if body.blocks[b]["t"]["k"] == "call") else "?"
            table.setdefault(executed, set()).add(out)
    return table
