"""C07 -- table-driven and recursive-ascent parsers give identical results
(clause: the two serialisations agree on the empty-reduction location chain)."""
from . import c06

LEVEL = "other"


def run(tier):
    rep = c06.run(tier, "C07")
    rep.explanation = ("Sibling agreement between lr1/codegen/parse_table.rs and lr1/codegen/ascent.rs on the one place where "
                       "they compute a value differently by construction: the location given to a production that pops no symbols "
                       "(lookahead start, then end of the last symbol, then default). " + rep.explanation)
    return rep
