"""C01 -- generated parsers accept exactly the language of the start symbol (clause: table codec and width)."""
import re

from . import core, symex
from . import tmplutil as tu
from .core import callee_of
from .report import Report

LEVEL = "other"
EXPLANATION = (
    "Agreement between the writer and every reader of the ACTION / EOF_ACTION / goto integer encoding, decided by "
    "symbolic evaluation of MIR and by template rules: writer (lr1::codegen::parse_table): shift to state s is "
    "written as s+1, reduce of production p as -(p+1), error as 0; readers (the 15 bodies of ParserAction for "
    "i8/i16/i32 in lalrpop-util): as_shift = Some(v-1) iff v>0, as_reduce = Some(-(v+1)) iff v<0, is_error iff v==0; "
    "readers in emitted code: `action == 0` is error, `action > 0` is shift, `-(action + 1)` is the reduce index, "
    "`next_state == 0`, goto default 0. Reader-after-writer is the identity on indices >= 0 and the three sign classes "
    "partition the integers. Width: the branch that selects `i8` (`i16`) is guarded by max(#states, #reductions) <= "
    "127 (32767), the largest written value being #states and the smallest -#reductions. The construction of the "
    "automaton itself (the bulk of C01) is NOT decided.")


def app(v, name):
    return v and v[0] == "app" and v[1][0] == "fn" and v[1][1].endswith(name)


def is_add1(v):
    return app(v, "op:Add") and len(v[2]) == 2 and v[2][1] == ("c", 1) and v[2][0] and v[2][0][0] in symex.SYMBOLIC


def run(tier):
    rep = Report("C01", LEVEL, tier)
    rep.explanation = EXPLANATION
    rep.not_decided = ("that the LR(1)/lane-table/LALR constructions compute the right automaton, state renumbering, goto compression, "
                       "the recursive-ascent serialisation, and that the driver accepts exactly L(S)")
    rep.trusted = ["rustc MIR", "term evaluator (rules/symex.py)", "syn parse of the templates"]
    f = core.Facts(core.ensure_facts())
    # ---- writer
    wr = f.one(r"parse_table::TableDriven<'grammar>>>::write_reduction$")
    wrel = wr.relfile()
    rets = symex.term_eval(f, wr, inline=lambda p: False)
    kinds = {}
    for r in rets:
        v = r[0]
        if not (v and v[0] == "tuple" and len(v[1]) == 2 and v[1][1] and v[1][1][0] == "adt"):
            rep.violation("writer.shape", wr.path, "write_reduction returns %s" % symex.show_term(v)[:120], key="writer:shape", file=wrel, line=wr.line)
            continue
        kinds[v[1][1][1].split("::")[-1]] = v[1][0]
    red = kinds.get("Reduce")
    rep.ob("writer.reduce-is-minus-p-plus-1", "write_reduction Reduce -> %s" % symex.show_term(red)[:100],
           app(red, "op:Neg") and is_add1(red[2][0]),
           "a reduce of production p is not written as -(p + 1)", key="writer:reduce", file=wrel, line=wr.line, fn=wr.path)
    err = kinds.get("Error")
    rep.ob("writer.error-is-0", "write_reduction Error -> %s" % symex.show_term(err), err == ("c", 0),
           "the error action is not written as 0", key="writer:error", file=wrel, line=wr.line, fn=wr.path)
    # reduce index comes from reduce_indices[production]
    ok = red is not None and "reduce_indices" in symex.show_term(red)
    rep.ob("writer.reduce-index-source", "reduce index <- custom.reduce_indices[production]", ok, "", key="writer:reduce-index", file=wrel, line=wr.line)
    shifts = 0
    for b in f.find(r"TableDriven<'grammar>>>::write_parse_table::\{closure#\d+\}$"):
        for r in symex.term_eval(f, b, inline=lambda p: False):
            v = r[0]
            if v and v[0] == "tuple" and len(v[1]) == 2 and v[1][1] and v[1][1][0] == "adt" and v[1][1][1].endswith("Comment::Goto"):
                first = v[1][0]
                if first and first[0] == "adt" and first[1].endswith("Option::Some"):
                    # the goto table stores the target state itself (read back unchanged by ParserDefinition::goto)
                    inner = first[3][0]
                    rep.ob("writer.goto-is-identity", "%s Goto -> Some(%s)" % (b.path.split("::")[-1], symex.show_term(inner)[:80]),
                           bool(inner) and inner[0] in symex.SYMBOLIC and not app(inner, "op:Add") and not app(inner, "op:Sub"),
                           "a goto entry is not the target state index itself", key="writer:goto", file=b.relfile(), line=b.line, fn=b.path)
                    continue
                shifts += 1
                rep.ob("writer.shift-is-s-plus-1", "%s Goto -> %s" % (b.path.split("::")[-1], symex.show_term(first)[:100]), is_add1(first),
                       "a shift to state s is not written as s + 1", key="writer:shift", file=b.relfile(), line=b.line, fn=b.path)
    rep.floor("shift entries written (symbolic paths)", shifts, 1)

    # ---- readers in lalrpop-util
    n_readers = 0
    for ty in ("i8", "i16", "i32"):
        for meth, spec in (("as_shift", ("op:Gt", "sub1")), ("as_reduce", ("op:Lt", "negadd1")), ("is_shift", ("op:Gt", None)),
                           ("is_reduce", ("op:Lt", None)), ("is_error", ("op:Eq", None))):
            bs = f.find(r"^<%s as lalrpop_util::state_machine::ParserAction<D>>::%s$" % (ty, meth))
            if len(bs) != 1:
                rep.anchor_missing("<%s as ParserAction>::%s" % (ty, meth))
                continue
            n_readers += 1
            b = bs[0]
            rr = symex.term_eval(f, b, inline=lambda p: False)
            ok = True
            if spec[1] is None:
                ok = len(rr) == 1 and app(rr[0][0], spec[0]) and rr[0][0][2] == (("sym", "arg1"), ("c", 0))
            else:
                some = [r for r in rr if r[0] and r[0][0] == "adt" and r[0][1].endswith("::Some")]
                none = [r for r in rr if r[0] and r[0][0] == "adt" and r[0][1].endswith("::None")]
                ok = len(some) == 1 and len(none) == 1 and len(rr) == 2
                if ok:
                    s, n = some[0], none[0]
                    cond_s = [c for c in s.pc if app(c[1], spec[0]) and c[1][2] == (("sym", "arg1"), ("c", 0))]
                    cond_n = [c for c in n.pc if app(c[1], spec[0]) and c[1][2] == (("sym", "arg1"), ("c", 0))]
                    ok = len(cond_s) == 1 and cond_s[0][2] != 0 and len(cond_n) == 1 and cond_n[0][2] == 0
                    val = s[0][3][0]
                    if spec[1] == "sub1":
                        ok = ok and app(val, "op:Sub") and val[2] == (("sym", "arg1"), ("c", 1))
                    else:
                        ok = ok and app(val, "op:Neg") and app(val[2][0], "op:Add") and val[2][0][2] == (("sym", "arg1"), ("c", 1))
            rep.ob("reader.%s" % meth, "<%s as ParserAction>::%s -> %s" % (ty, meth, [symex.show_term(r[0]) for r in rr]), ok,
                   "<%s as ParserAction>::%s does not decode the table encoding (shift = v-1 iff v>0, reduce = -(v+1) iff v<0, error iff v==0)" % (ty, meth),
                   key="reader:%s:%s" % (ty, meth), file=b.relfile(), line=b.line, fn=b.path)
    rep.floor("ParserAction reader bodies", n_readers, 15)

    # ---- readers in emitted code
    T = f.tmpl
    gen = [m for m in T.macros if m["macro"] == "rust" and m["fmt"] and m["file"].endswith("lr1/codegen/parse_table.rs")]
    acc = " \n".join(tu.cooked(m["fmt"]) for m in gen if m["fn"].endswith("::write_accepts_fn"))
    for name, rx in (("error-is-==0", r"if\s+·p·action\s*==\s*0\s*\{\s*return\s+false"), ("shift-is->0", r"if\s+·p·action\s*>\s*0\s*\{\s*return\s+true"),
                     ("reduce-index", r"simulate_reduce\(\s*-\(\s*·p·action\s*\+\s*1\s*\)")):
        rep.ob("emitted-reader.accepts.%s" % name, "write_accepts_fn", re.search(rx, acc) is not None,
               "the emitted accepts() simulation does not decode the action as the writer encodes it (%s)" % name,
               key="emitted-reader:accepts:%s" % name, file="lalrpop/src/lr1/codegen/parse_table.rs", line=0)
    et = " \n".join(tu.cooked(m["fmt"]) for m in gen if m["fn"].endswith("::emit_expected_tokens_fn"))
    rep.ob("emitted-reader.expected_tokens.error-is-==0", "emit_expected_tokens_fn", re.search(r"if\s+next_state\s*==\s*0", et) is not None,
           "expected_tokens does not treat 0 as the error action", key="emitted-reader:expected_tokens", file="lalrpop/src/lr1/codegen/parse_table.rs", line=0)
    gm = [tu.cooked(m["fmt"]) for m in gen if m["fn"].endswith("emit_goto_match")]
    rep.ob("emitted-reader.goto-default-0", "emit_goto_match", any(re.match(r"^\s*_\s*=>\s*0,", c) for c in gm),
           "goto default is not 0", key="emitted-reader:goto-default", file="lalrpop/src/lr1/codegen/parse_table.rs", line=0)
    # ACTION indexing: state * #terminals + integer
    wp = [m for m in gen if m["fn"].endswith("::write_parse_table") and "ACTION[" in tu.cooked(m["fmt"]) and "integer" in tu.cooked(m["fmt"])]
    ok = False
    for m in wp:
        a = " ".join(x["expr"] for x in m["args"])
        ok = re.search(r"ACTION\[\(state as usize\)\s*·0·\s*\+\s*integer\]", tu.cooked(m["fmt"])) is not None and \
            re.search(r'"\*\s*\{\}"', a) is not None and re.search(r"terminals\s*\.\s*all\s*\.\s*len\s*\(\s*\)", a) is not None
    rep.ob("emitted-reader.action-row-stride", "write_parse_table ACTION index", ok,
           "the ACTION table is not indexed as state * #terminals + terminal (the stride the writer uses: one row of terminals.all per state)",
           key="emitted-reader:action-stride", file="lalrpop/src/lr1/codegen/parse_table.rs", line=wp[0]["line"] if wp else 0)

    # ---- construction coverage: every state contributes / is visited
    construction_coverage(rep, f)

    # ---- width
    comp = []
    for bb in f.bodies.values():
        if bb.unit == "lalrpop-lib" and "codegen::parse_table" in bb.path and bb.kind != "promoted":
            if any(s["k"] == "assign" and s["r"]["k"] == "use" and core.const_str(s["r"]["o"]) == "i8" for _, _, s in bb.stmts()):
                comp.append(bb)
    if len(comp) != 1:
        rep.anchor_missing("the function selecting the table integer type (assigns \"i8\")")
        return rep
    b = comp[0]
    limits = {"i8": 127, "i16": 32767}
    found = {}
    for bi, si, s in b.stmts():
        if s["k"] == "assign" and s["r"]["k"] == "use":
            cs = core.const_str(s["r"]["o"])
            if cs in ("i8", "i16", "i32"):
                found[cs] = bi
    rep.floor("state-type selections (i8/i16/i32)", len(found), 3)
    for ty, lim in limits.items():
        if ty not in found:
            continue
        blk = found[ty]
        ok = False
        detail = ""
        for sb, bl in enumerate(b.blocks):
            t = bl["t"]
            if t["k"] != "switch" or not b.dominates(sb, blk):
                continue
            for d in core.origins(b, t["o"]):
                if d[0] != "other" or d[1] < 0:
                    continue
                r = b.blocks[d[1]]["s"][d[2]]["r"]
                if r["k"] != "binop" or r["op"] not in ("Le", "Lt"):
                    continue
                c = core.const_int(r["b"])
                if c is None:
                    # constant behind a cast
                    for dd in core.origins(b, r["b"]):
                        if dd[0] == "const":
                            import json as _j
                            c = _j.loads(dd[1]).get("int", c)
                lhs = core.origins(b, r["a"])
                from_max = any(x[0] == "call" and x[1] in ("std::cmp::max", "core::cmp::max") for x in lhs)
                bound = c if r["op"] == "Le" else (c - 1 if c is not None else None)
                # the true edge of this comparison must dominate the selection
                tgt_true = t["otherwise"]
                if bound is not None and from_max and b.dominates(tgt_true, blk) and tgt_true != [x for v, x in t["targets"] if v == 0][0]:
                    detail = "max(..) %s %s" % (r["op"], c)
                    if bound <= lim:
                        ok = True
        rep.ob("width.%s-holds-every-value" % ty, "compile: `%s` selected under %s" % (ty, detail or "?"), ok,
               "the %s table type is selected without a guard max(#states, #reductions) <= %d: a grammar with exactly %d states overflows "
               "the entry for a shift to the last state" % (ty, lim, lim + 1), key="width:%s" % ty, file=b.relfile(), line=b.line, fn=b.path)
    # max is over states.len() and reduce_indices.len()
    mx = [t for bi, t in b.calls() if callee_of(t) in ("std::cmp::max", "core::cmp::max")]
    ok = False
    for t in mx:
        srcs = set()
        for a in t["args"]:
            for d in core.origins(b, a):
                if d[0] == "call":
                    srcs.add(d[1].split("::")[-1])
        ok = ok or srcs == {"len"}
    rep.ob("width.bound-covers-states-and-reductions", "compile: max(states.len(), reduce_indices.len())", ok and len(mx) >= 1,
           "the width is not chosen from max(#states, #reductions)", key="width:max-args", file=b.relfile(), line=b.line, fn=b.path)
    return rep


def loops_containing(b, block):
    hs = {h for u, h in b.back_edges()}
    out = []
    for h in hs:
        body = b.loop_body(h)
        if block in body:
            out.append((len(body), h, body))
    out.sort()
    return out


def construction_coverage(rep, f):
    """Two necessary structural conditions of the automaton construction (the rest of it is not decided):
    (i) the LALR collapse merges the actions of EVERY canonical state into its LALR state -- on every iteration of
    the loop over the LR(1) states the inner loops over its shifts, gotos and reductions are entered;
    (ii) the lane-table work list re-reads the number of states inside the loop whose body may append states."""
    from .core import origins
    cb = f.one(r"^lalrpop::lr1::build_lalr::collapse_to_lalr_states$")
    crel = cb.relfile()
    n = 0
    for field, callee_rx in (("reductions", r"Multimap::<K, C>::push$|::push$"), ("shifts", r"BTreeMap::<K, V, A>::insert$"), ("gotos", r"BTreeMap::<K, V, A>::insert$")):
        sites = []
        for bi, t in cb.calls():
            c = callee_of(t) or ""
            if re.search(callee_rx, c) and t["args"]:
                names = set()
                for d in origins(cb, t["args"][0]):
                    names |= set(d[-1]) if isinstance(d[-1], tuple) else set()
                if field in names:
                    sites.append(bi)
        for bi in sites:
            ls = loops_containing(cb, bi)
            if len(ls) < 2:
                continue
            n += 1
            inner_h = ls[0][1]
            outer_h = ls[-1][1]
            backs = [u for u, h in cb.back_edges() if h == outer_h]
            ok = all(cb.dominates(inner_h, u) for u in backs)
            rep.ob("coverage.lalr-collapse-merges-every-state", "collapse_to_lalr_states: %s merged at bb%d (inner loop bb%d, outer loop bb%d)" % (field, bi, inner_h, outer_h), ok,
                   "an iteration of the loop over the canonical LR(1) states can skip merging their %s into the LALR state: lookaheads of later "
                   "states with the same core are lost (valid input is rejected) " % field, key="lalr-merge-skippable:%s" % field, file=crel, line=cb.blocks[bi]["t"]["ln"], fn=cb.path)
    rep.floor("LALR merge sites (shifts/gotos/reductions)", n, 3)
    lc = f.one(r"^lalrpop::lr1::lane_table::construct::LaneTableConstruct::<'grammar>::construct$")
    lrel = lc.relfile()
    res = [(bi, t) for bi, t in lc.calls() if (callee_of(t) or "").endswith("::resolve_inconsistencies")]
    if not rep.floor("calls of resolve_inconsistencies in construct", len(res), 1):
        return
    bi, t = res[0]
    S = set()
    for a in t["args"]:
        for l in core.slice_locals(lc, [a], transparent=lambda c: bool(c) and c.endswith("deref_mut")):
            if lc.local_ty(l).startswith("std::vec::Vec<lalrpop::lr1::core::State<"):
                S.add(l)
    ls = loops_containing(lc, bi)
    ok = False
    if ls and S:
        body = ls[0][2]
        for b2, t2 in lc.calls():
            if b2 in body and (callee_of(t2) or "").endswith("Vec::<T, A>::len") and core.slice_locals(lc, [t2["args"][0]]) & S:
                ok = True
    rep.ob("coverage.lane-table-worklist-rereads-its-bound", "construct: states.len() evaluated inside the loop calling resolve_inconsistencies(&mut states, ..)", ok,
           "the loop over the states is bounded by a length computed before the loop although its body can append states: states cloned while resolving "
           "inconsistencies are never resolved themselves and keep their over-approximate lookahead", key="lane-table-bound-hoisted", file=lrel, line=t["ln"], fn=lc.path)
