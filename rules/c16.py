"""C16 -- error recovery yields a well-formed tree and accounts for every token (clause: token accounting)."""
import re

from . import core
from .core import callee_of, callee_decl, origins
from .report import Report
from .smachine import SM, PD, PA, P
from . import errorcol

LEVEL = "other"
EXPLANATION = (
    "Token accounting in Parser::error_recovery (MIR): every token taken out of the lookahead slot is pushed onto "
    "the one `dropped_tokens` vector before the next token is pulled (push dominates the pull inside the search "
    "loop), that vector is only ever pushed to and is moved unchanged into ErrorRecovery { dropped_tokens }, the "
    "recorded `error` is computed before anything is dropped, and the recovery symbol's span and state are pushed "
    "once. Sibling agreement: the error pseudo-terminal is the last terminal (lower), error_action reads column "
    "len-1 and the terminal name list excludes exactly that column. Well-formedness of the recovered tree and span "
    "ordering are NOT decided.")


def run(tier):
    rep = Report("C16", LEVEL, tier)
    rep.explanation = EXPLANATION
    rep.not_decided = "that the recovered stack is a viable prefix, span ordering/disjointness of error nodes, no-recovery for sentences"
    rep.trusted = ["rustc MIR at mir-opt-level=0"]
    f = core.Facts(core.ensure_facts())
    sm = SM(f)
    er, nt = sm.b["error_recovery"], sm.b["next_token"]
    rel = er.relfile()
    # the ErrorRecovery aggregate
    aggs = [(bi, si, s) for bi, si, s in er.stmts() if s["k"] == "assign" and s["r"]["k"] == "agg" and s["r"].get("adt") == "lalrpop_util::ErrorRecovery"]
    if not rep.floor("ErrorRecovery constructions", len(aggs), 1):
        return rep
    abi, asi, a = aggs[0]
    fields = a["r"]["fields"]
    dt_op = a["r"]["ops"][fields.index("dropped_tokens")]
    err_op = a["r"]["ops"][fields.index("error")]
    D = core.slice_locals(er, [dt_op], transparent=lambda c: False)
    # D's root definition is Vec::new()
    roots = [d for d in origins(er, dt_op, transparent=lambda c: None)]
    ok = all(d[0] == "call" and d[1] == "std::vec::Vec::<T>::new" for d in roots) and bool(roots)
    rep.ob("dropped_tokens.starts-empty-and-is-moved-whole", "ErrorRecovery.dropped_tokens <- %s" % sorted(roots), ok,
           "ErrorRecovery.dropped_tokens is not the locally built vector", key="dropped_tokens:source", file=rel, line=a["ln"], fn=er.path)
    # all mutable borrows of D go to Vec::push
    n_mut = 0
    for bi, t in er.calls():
        for i, arg in enumerate(t["args"]):
            l = core.op_local(arg)
            if l is None:
                continue
            # is arg a &mut of D?
            for dbi, si, d in er.defs.get(l, []):
                if si != "t" and d["r"]["k"] == "ref" and d["r"].get("mut") and d["r"]["p"]["l"] in D:
                    n_mut += 1
                    c = callee_of(t) or ""
                    rep.ob("dropped_tokens.only-pushed", "bb%d %s" % (bi, c), c == "std::vec::Vec::<T, A>::push",
                           "dropped_tokens is modified by %s (tokens can be lost or reordered)" % c, key="dropped_tokens:mutated-by:%s" % c.split("::")[-1],
                           file=rel, line=t["ln"], fn=er.path)
    rep.floor("mutations of dropped_tokens", n_mut, 1)
    pushes = []
    for bi, t in er.calls():
        if callee_of(t) == "std::vec::Vec::<T, A>::push" and core.slice_locals(er, [t["args"][0]], transparent=lambda c: False) & D:
            o = origins(er, t["args"][1])
            from_take = all(d[0] == "call" and d[1] == "std::option::Option::<T>::take" and d[3][-2:] == ("Some", "0") for d in o) and bool(o)
            rep.ob("dropped_tokens.push-is-the-lookahead", "bb%d push(%s)" % (bi, sorted(o)), from_take,
                   "a value other than the token just taken out of the lookahead slot is recorded as dropped",
                   key="dropped_tokens:push-arg", file=rel, line=t["ln"], fn=er.path)
            pushes.append(bi)
    # every pull is preceded by a push in the same iteration
    pulls = [bi for bi, t in er.calls() if callee_of(t) == nt.path]
    rep.floor("token pulls in error_recovery", len(pulls), 1)
    heads = [h for u, h in er.back_edges()]
    for n in pulls:
        ok = False
        for p in pushes:
            if er.dominates(p, n):
                # same iteration: no loop header strictly between p and n on the dominator chain
                between = [h for h in heads if er.dominates(p, h) and er.dominates(h, n) and h != p]
                if not between:
                    ok = True
        rep.ob("pull.preceded-by-drop-record", "error_recovery bb%d next_token()" % n, ok,
               "a new token is pulled in error_recovery without the previous lookahead having been pushed onto dropped_tokens "
               "in the same iteration: the skipped token is in no error node and not in the tree",
               key="pull-without-record", file=rel, line=er.blocks[n]["t"]["ln"], fn=er.path)
    # every take() of the lookahead slot flows only into the push
    takes = [(bi, t) for bi, t in er.calls() if callee_of(t) == "std::option::Option::<T>::take"]
    for bi, t in takes:
        tl, sinks, esc = core.taint(er, {t["dest"]["l"]})
        bad = [s for s in sinks if s[1] not in ("std::vec::Vec::<T, A>::push",) and not (s[1] or "").endswith("::next_token") and s[0] != bi]
        # taint is flow-insensitive: D itself becomes tainted; restrict to direct consumers of the taken value
        direct = []
        imgs = core.forward_locals(er, {t["dest"]["l"]}, transparent=lambda c: False)
        for cb, ct in er.calls():
            if any(l in imgs for a in ct["args"] for l in core.operand_locals(a)):
                direct.append(callee_of(ct))
        okd = all(c == "std::vec::Vec::<T, A>::push" for c in direct) and bool(direct)
        rep.ob("lookahead.taken-token-only-recorded", "bb%d take() -> %s" % (bi, direct), okd,
               "the token taken out of the lookahead slot flows to %s" % direct, key="taken-token-flow", file=rel, line=t["ln"], fn=er.path)
    # the recorded error is computed before the first drop, from the whole state stack
    eo = origins(er, err_op)
    ute_calls = [d for d in eo if d[0] == "call" and d[1].endswith("unrecognized_token_error")]
    ok = len(ute_calls) == len(eo) == 1 and all(er.dominates(d[2], p) for d in ute_calls for p in pushes)
    rep.ob("error.recorded-before-dropping", "ErrorRecovery.error <- %s" % sorted(eo), ok,
           "the error stored in the recovery node is not the unrecognized-token error computed before any token was dropped",
           key="recovery-error-source", file=rel, line=a["ln"], fn=er.path)
    # exactly one push of the recovery state and of the recovery symbol after the aggregate
    after = er.reachable(er.succ[abi] if er.blocks[abi]["t"]["k"] != "call" else [abi])
    sp = [bi for bi, t in er.calls() if callee_of(t) == "std::vec::Vec::<T, A>::push" and bi in after
          and any("symbols" in d[-1] for d in origins(er, t["args"][0]))]
    rep.ob("recovery.symbol-pushed-once", "pushes onto symbols after ErrorRecovery{..}: %s" % sp, len(sp) == 1,
           "the error symbol is pushed %d times" % len(sp), key="recovery-symbol-push", file=rel, line=a["ln"], fn=er.path)
    # ---- span of the error node: documented preference order, by value-flow of the pushed triple
    def src_kind(call_block):
        t = er.blocks[call_block]["t"]
        c = (callee_of(t) or "").split("::")[-1]
        if not t["args"]:
            return (c, None)
        recv = origins(er, t["args"][0])
        kind = None
        if any(d[0] == "arg" and d[1] == 1 and "symbols" in d[2] for d in recv):
            kind = "symbols"
        elif core.slice_locals(er, [t["args"][0]]) & D:
            kind = "dropped_tokens"
        elif any(d[0] == "arg" and d[1] == 2 for d in recv) or any(d[0] == "call" and d[1].endswith("::take") for d in recv):
            kind = "lookahead"
        elif any(d[0] == "arg" and d[1] == 1 and "definition" in d[2] for d in recv):
            kind = "definition"
        return (c, kind)

    sym_push = None
    for bi, t in er.calls():
        if callee_of(t) == "std::vec::Vec::<T, A>::push" and bi in after and any("symbols" in d[-1] for d in origins(er, t["args"][0])):
            sym_push = t
    if sym_push is None:
        rep.anchor_missing("push of the recovery symbol")
    else:
        l = core.op_local(sym_push["args"][1])
        agg = [d for _, si, d in er.defs.get(l, []) if si != "t" and d["r"]["k"] == "agg"]
        if len(agg) != 1 or len(agg[0]["r"]["ops"]) != 3:
            rep.anchor_missing("(start, recovery, end) triple")
        else:
            tr = lambda c: [0] if c and (c.endswith("::clone") or c.endswith("Option::<T>::unwrap")) else None
            def srcs(op):
                out = set()
                for d in origins(er, op, transparent=tr):
                    if d[0] == "call":
                        c, kind = src_kind(d[2])
                        out.add((c, kind, d[3][-1] if d[3] else None))
                    else:
                        out.add(("?" + d[0], None, None))
                return out
            START = {("get", "symbols", "0"), ("first", "dropped_tokens", "0"), ("index", "symbols", "2"), ("start_location", "definition", None)}
            END = START | {("last", "dropped_tokens", "2"), ("last", "symbols", "2"), ("as_ref", "lookahead", "0")}
            got_s, got_e = srcs(agg[0]["r"]["ops"][0]), srcs(agg[0]["r"]["ops"][2])
            rep.ob("span.start-sources", "error node start <- %s" % sorted(map(str, got_s)), got_s == START,
                   "the start of the error node is taken from %s; documented: start of the first popped symbol, else start of the first dropped token, "
                   "else end of the symbol below, else the start location" % sorted(map(str, got_s - START)) if got_s - START else "a documented source of the start position is missing: %s" % sorted(map(str, START - got_s)),
                   key="span-start", file=rel, line=a["ln"], fn=er.path)
            rep.ob("span.end-sources", "error node end <- %s" % sorted(map(str, got_e)), got_e == END,
                   "the end of the error node is taken from %s; documented: end of the last dropped token, else end of the last popped symbol, else start of the "
                   "lookahead, else the start position" % sorted(map(str, got_e - END)) if got_e - END else "a documented source of the end position is missing: %s" % sorted(map(str, END - got_e)),
                   key="span-end", file=rel, line=a["ln"], fn=er.path)
            ro = origins(er, agg[0]["r"]["ops"][1])
            rep.ob("span.symbol-is-recovery-symbol", "middle <- %s" % sorted(d[1].split("::")[-1] for d in ro if d[0] == "call"),
                   all(d[0] == "call" and d[1].endswith("ParserDefinition::error_recovery_symbol") for d in ro) and bool(ro), "",
                   key="span-symbol", file=rel, line=a["ln"], fn=er.path)
    from .smachine import check_reduce_lookahead
    check_reduce_lookahead(rep, f)
    errorcol.check(rep, f, "errorcol.")
    return rep
