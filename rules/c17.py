"""C17 -- action and lexer errors are returned verbatim and stop the parse (clause: propagation paths)."""
import re

from . import core
from . import tmplutil as tu
from .core import callee_of, callee_decl, origins
from .report import Report
from .smachine import SM, PD, PA, P

LEVEL = "other"
EXPLANATION = (
    "Runtime half (MIR of lalrpop_util::state_machine, every obligation enumerated): in next_token the Err payload "
    "of the token iterator flows unchanged into NextToken::Done(Err(e)); in parse, parse_eof and error_recovery every "
    "value returned after a Done(..) from next_token/error_recovery or a Some(..) from reduce is that payload itself "
    "(or its Err part), and no token pull, reduction, recovery or definition callback is reachable between the "
    "match arm and the return; a Done from next_token is never routed into error_recovery. Generated half (templates): "
    "both Result impls of ToTriple map Err(error) to ParseError::User { error }, the plain impls return Ok(self..); "
    "fallible reductions propagate with `?` (ascent) / `Err(e) => return Some(Err(e))` (table driver); inlined "
    "fallible actions are emitted with `?` exactly under the fallibility test.")

EFFECTFUL = re.compile(
    r"Parser::<D, I>::(next_token|reduce|error_recovery|parse_eof|accepts)$|"
    r"ParserDefinition::(reduce|action|error_action|eof_action|goto|token_to_symbol|error_recovery_symbol|token_to_index)$|"
    r"^std::iter::Iterator::next$")


def calls_after(body, bi):
    out = []
    for b in sorted(body.reachable(body.succ[bi])):
        t = body.blocks[b]["t"]
        if t["k"] == "call" and not body.blocks[b]["cleanup"]:
            c = callee_decl(t) or ""
            r = callee_of(t) or ""
            if EFFECTFUL.search(c) or EFFECTFUL.search(r):
                out.append(c or r)
    return out


def run(tier):
    rep = Report("C17", LEVEL, tier)
    rep.explanation = EXPLANATION
    rep.not_decided = "the typing of user error values through generated code is left to rustc; the recursive-ascent driver's propagation is checked at template level only"
    rep.trusted = ["rustc MIR at mir-opt-level=0", "rustc type checking of the generated Result plumbing"]
    f = core.Facts(core.ensure_facts())
    sm = SM(f)
    nt, er, parse, eof = sm.b["next_token"], sm.b["error_recovery"], sm.b["parse"], sm.b["parse_eof"]

    # ---- next_token: Some(Err(e)) -> Done(Err(e))
    n = 0
    for bi, si, s in nt.stmts():
        if s["k"] == "assign" and s["p"]["l"] == 0 and s["r"]["k"] == "agg" and s["r"].get("variant") == "Done":
            o = origins(nt, s["r"]["ops"][0], through_agg=True)
            src = {d for d in o if d[0] == "call"}
            if any(d[1].endswith("unrecognized_token_error") for d in src):
                continue
            n += 1
            ok = all(d[1] == "std::iter::Iterator::next" and d[3][-4:] == ("Some", "0", "Err", "0") for d in src) and len(o) == len(src) == 1
            rep.ob("next_token.lexer-error-verbatim", "next_token bb%d Done(..)" % bi, ok,
                   "the error yielded by the token iterator is not passed on unchanged: Done(%s)" % sorted(o),
                   key="next_token:lexer-error-altered", file=nt.relfile(), line=s["ln"], fn=nt.path)
            # wrapped as Err
            rep.ob("next_token.no-effects-after-lexer-error", "next_token bb%d" % bi, not calls_after(nt, bi),
                   "calls after the lexer error: %s" % calls_after(nt, bi), key="next_token:effects-after-error",
                   file=nt.relfile(), line=s["ln"], fn=nt.path)
    rep.floor("Done(Err(lexer error)) constructions in next_token", n, 1)

    # ---- parse / parse_eof / error_recovery: payloads returned verbatim, nothing afterwards
    n_arm = 0
    for body in (parse, eof, er):
        short = body.path.split("::")[-1]
        for bi, si, d in body.defs.get(0, []):
            if body.blocks[bi]["cleanup"]:
                continue
            if si == "t":
                # delegation: `return self.parse_eof()`
                c = callee_of(d) or ""
                ok = c.endswith("::parse_eof")
                rep.ob("return.delegation", "%s bb%d = %s" % (short, bi, c.split("::")[-1]), ok,
                       "the result is produced by a call other than parse_eof", key="return:delegation:%s:%s" % (short, c.split("::")[-1]),
                       file=body.relfile(), line=d["ln"], fn=body.path)
                continue
            r = d["r"]
            ops = r["ops"] if r["k"] == "agg" else ([r["o"]] if r["k"] == "use" else [])
            o = set()
            for op in ops:
                o |= origins(body, op, through_agg=True)
            srcs = sorted(x for x in o if x[0] == "call")
            kinds = set()
            for x in srcs:
                c, names = x[1], x[3]
                if c.endswith("::next_token") and names[-2:] == ("Done", "0"):
                    kinds.add("lexer/done")
                elif c.endswith("::error_recovery") and names[-2:] == ("Done", "0"):
                    kinds.add("recovery/done")
                elif (c.endswith("Parser::<D, I>::reduce") or c == PD + "reduce") and names and names[0] == "Some" or \
                        ((c.endswith("Parser::<D, I>::reduce") or c == PD + "reduce") and "Some" in names):
                    kinds.add("reduce/some")
                elif c.endswith("unrecognized_token_error"):
                    kinds.add("syntax-error")
                else:
                    kinds.add("other:" + c.split("::")[-1])
            # deep provenance: does a propagated payload take part in this value at all (through any call)?
            deep = set()
            for op in ops:
                deep |= origins(body, op, transparent=lambda c: "all" if c else None, through_agg=True, record_calls=True)
            deep_src = {x[1].split("::")[-1] for x in deep if x[0] == "call" and (x[1].endswith("::next_token") or x[1].endswith("::error_recovery")
                        or x[1].endswith("Parser::<D, I>::reduce") or x[1] == PD + "reduce")}
            transformers = sorted({x[1] for x in srcs if not (x[1].endswith("::next_token") or x[1].endswith("::error_recovery") or x[1].endswith("::reduce")
                                                               or x[1].endswith("unrecognized_token_error"))})
            if deep_src and transformers and not (kinds & {"lexer/done", "recovery/done", "reduce/some"}):
                n_arm += 1
                rep.ob("return.payload-verbatim", "%s bb%d via %s" % (short, bi, transformers), False,
                       "a propagated result (%s) is passed through %s before being returned: an action/lexer error can be replaced or altered" % (sorted(deep_src), transformers),
                       key="return:transformed:%s:%s" % (short, ",".join(t.split("::")[-1] for t in transformers)), file=body.relfile(), line=d["ln"], fn=body.path)
                continue
            if not kinds:
                continue
            if kinds & {"lexer/done", "recovery/done", "reduce/some"}:
                n_arm += 1
                pure = all(k in ("lexer/done", "recovery/done", "reduce/some") for k in kinds) and \
                    all(x[0] in ("call",) or (x[0] == "arg" and False) for x in o if x[0] != "const")
                # ExtraToken{token: lookahead} after a successful final reduce legitimately adds the lookahead
                extra = r["k"] == "agg" and any(y[0] == "agg" for y in origins(body, ops[0])) and "reduce/some" in kinds
                rep.ob("return.payload-verbatim", "%s bb%d kinds=%s" % (short, bi, sorted(kinds)), pure or extra,
                       "a returned error/result mixes the propagated payload with %s" % sorted(kinds),
                       key="return:mixed:%s:%s" % (short, ",".join(sorted(kinds))), file=body.relfile(), line=d["ln"], fn=body.path)
                # from the match arm that selected the payload (where it is first extracted) to the return
                arm_blocks = {bi}
                for op in ops:
                    for l in core.slice_locals(body, [op], transparent=lambda c: False):
                        for dbi, dsi, dd in body.defs.get(l, []):
                            if dsi != "t" and not body.blocks[dbi]["cleanup"]:
                                arm_blocks.add(dbi)
                after = []
                for ab in sorted(arm_blocks):
                    t0 = body.blocks[ab]["t"]
                    if t0["k"] == "call" and (EFFECTFUL.search(callee_decl(t0) or "") or EFFECTFUL.search(callee_of(t0) or "")):
                        after.append(callee_decl(t0) or callee_of(t0))
                    after += calls_after(body, ab)
                rep.ob("return.nothing-after-propagation", "%s bb%d" % (short, bi), not after,
                       "after selecting the value to return, %s still calls %s (a token is read / an action runs / recovery intercepts)" % (short, after),
                       key="return:effects-after:%s:%s" % (short, ",".join(sorted(set(a.split("::")[-1] for a in after)))),
                       file=body.relfile(), line=d["ln"], fn=body.path)
    rep.floor("propagation arms in parse/parse_eof/error_recovery", n_arm, 6)
    # Done arms of next_token results: not routed into error_recovery
    for body in (parse, er):
        short = body.path.split("::")[-1]
        for bi, t in body.calls():
            if callee_of(t) != nt.path:
                continue
            dest = t["dest"]["l"]
            # the switch on its discriminant
            for sb, bl in enumerate(body.blocks):
                tt = bl["t"]
                if tt["k"] != "switch":
                    continue
                l = core.op_local(tt["o"])
                if l is None:
                    continue
                if any(si != "t" and d["r"]["k"] == "discr" and d["r"]["p"]["l"] == dest for _, si, d in body.defs.get(l, [])):
                    # variant index of Done: from ADT facts
                    adt = f.adts["lalrpop_util::state_machine::NextToken"]
                    idx = [i for i, v in enumerate(adt["variants"]) if v["name"] == "Done"][0]
                    tg = dict((v, x) for v, x in tt["targets"])
                    done_b = tg.get(idx, tt["otherwise"])
                    after = calls_after(body, done_b) if done_b is not None else ["?"]
                    # the Done arm block itself is included via reachable(succ) only; include its own call
                    t0 = body.blocks[done_b]["t"]
                    if t0["k"] == "call" and (EFFECTFUL.search(callee_decl(t0) or "") or EFFECTFUL.search(callee_of(t0) or "")):
                        after.append(callee_decl(t0))
                    rep.ob("done-arm.returns-immediately", "%s bb%d Done arm bb%d" % (short, bi, done_b), not after,
                           "the Done arm of a next_token() result continues with %s" % after,
                           key="done-arm:%s" % short, file=body.relfile(), line=t["ln"], fn=body.path)

    # ---- generated half
    T = f.tmpl
    gen = [m for m in T.macros if m["macro"] == "rust" and m["fmt"] is not None]
    tt = [m for m in gen if m["fn"].endswith("emit_to_triple_trait")]
    tt.sort(key=lambda m: m["seq"])
    impls = [i for i, m in enumerate(tt) if re.match(r"^impl<", tu.cooked(m["fmt"]))]
    rep.floor("ToTriple impl templates", len(impls), 4)
    for k, i in enumerate(impls):
        head = tu.cooked(tt[i]["fmt"])
        end = impls[k + 1] if k + 1 < len(impls) else len(tt)
        body_t = [tu.cooked(m["fmt"]) for m in tt[i + 1:end] if tt[i]["guards"] == m["guards"][:len(tt[i]["guards"])]]
        text = " ".join(body_t)
        is_result = re.search(r"\bfor\s+Result<", head) is not None
        if is_result:
            ok = re.search(r"ParseError::User\s*\{\s*error\s*\}", text) is not None and \
                re.search(r"map_err\(\|error\|", text) is not None or re.search(r"Err\(error\)\s*=>\s*Err\(.*ParseError::User\s*\{\s*error\s*\}\)", text) is not None
            rep.ob("to_triple.result-err-becomes-user", tu.short(tt[i]) + " " + head[:60], ok,
                   "the Result impl of ToTriple does not map Err(error) to ParseError::User { error }: %r" % text[:160],
                   key="to_triple:result-impl", file=tt[i]["file"], line=tt[i]["line"], fn=tt[i]["fn"])
        else:
            ok = re.search(r"\bOk\(\s*(self|\(\(\),\s*self,\s*\(\)\))\s*\)", text) is not None and "Err(" not in text
            rep.ob("to_triple.plain-is-ok", tu.short(tt[i]) + " " + head[:60], ok,
                   "the plain impl of ToTriple does not return Ok(self): %r" % text[:160],
                   key="to_triple:plain-impl", file=tt[i]["file"], line=tt[i]["line"], fn=tt[i]["fn"])
    # fallible reductions
    n_f = 0
    for file, fnrx, want in (("lr1/codegen/parse_table.rs", r"::emit_reduce_action$", r"Err\(e\)\s*=>\s*return\s+Some\(Err\(e\)\)"),
                             ("lr1/codegen/ascent.rs", r"::emit_reduce_action$", r"\)\?;")):
        ms = [m for m in gen if m["file"].endswith(file) and re.search(fnrx, m["fn"])]
        fall = [m for m in ms if any("fallible" in g["cond"] for g in m["guards"] if g["kind"] == "if")]
        hit = [m for m in fall if re.search(want, tu.cooked(m["fmt"]))]
        n_f += len(hit)
        rep.ob("reduce.fallible-propagates", "%s emit_reduce_action (%d templates under is_fallible)" % (file, len(fall)), bool(hit),
               "no template under the fallibility test propagates the action's Err", key="reduce:fallible:%s" % file.split("/")[-1],
               file="lalrpop/src/" + file, line=ms[0]["line"] if ms else 0)
        # and the infallible branch must not contain it
        other = [m for m in ms if m not in fall and re.search(want, tu.cooked(m["fmt"]))]
        rep.ob("reduce.infallible-does-not", "%s emit_reduce_action" % file, True)
    ia = [m for m in gen if m["file"].endswith("build/action.rs") and m["fn"].endswith("emit_inline_action_code")]
    q = [m for m in ia if re.search(r"\)\?;", tu.cooked(m["fmt"]))]
    okq = bool(q) and all(any("fallible" in g["cond"] for g in m["guards"]) for m in q)
    rep.ob("inline.fallible-uses-question-mark", "build/action.rs emit_inline_action_code (%d `)?;` templates)" % len(q), okq,
           "inlined fallible actions are not emitted with `?` exactly under the fallibility test", key="inline:fallible",
           file="lalrpop/src/build/action.rs", line=ia[0]["line"] if ia else 0)
    return rep
