"""C04 -- syntax errors are reported at the first offending token (clause: no read-ahead, EOF location source)."""
import re

from . import core
from . import tmplutil as tu
from .core import callee_of, callee_decl, origins
from .report import Report
from .smachine import SM, PD, PA, P, none_side_block

LEVEL = "other"
EXPLANATION = (
    "Structural necessary conditions on the MIR of lalrpop_util::state_machine: (1) the token iterator is pulled "
    "only in Parser::next_token, which is called only from parse and error_recovery; (2) for grammars without `!` "
    "(uses_error_recovery() == false) error_recovery reaches its return without pulling a token, reducing or "
    "calling any action/goto of the definition; error_recovery is entered from parse/parse_eof only on the None side "
    "of every shift/reduce decode of the current action; (3) last_location is written only from start_location() "
    "and from the end position (field 2) of the token triple just pulled, before next_token can yield a token or a "
    "token-index error, and UnrecognizedEof takes its location from last_location; (4) the recursive-ascent wildcard "
    "arm emits the error without emitting another next-token call. The viable-prefix property of the tables "
    "(which makes 'first offending token' true) is NOT decided.")

FORBIDDEN_NO_RECOVERY = re.compile(
    r"Parser::<D, I>::(next_token|reduce|accepts|error_recovery|parse|parse_eof)$|"
    r"ParserDefinition::(reduce|action|error_action|eof_action|goto|token_to_symbol|error_recovery_symbol|simulate_reduce|token_to_index)$|"
    r"^std::iter::Iterator::next$")


def run(tier):
    rep = Report("C04", LEVEL, tier)
    rep.explanation = EXPLANATION
    rep.not_decided = "that the ACTION tables error exactly at the first token that is not a viable continuation (LR viable-prefix property, lane-table/LALR merging effects), absence of ExtraToken"
    rep.trusted = ["rustc MIR at mir-opt-level=0", "callee resolution by rustc"]
    f = core.Facts(core.ensure_facts())
    sm = SM(f)
    nt, er, parse, eof = sm.b["next_token"], sm.b["error_recovery"], sm.b["parse"], sm.b["parse_eof"]

    # ---- (1) who may pull
    n_pull = 0
    for b in sm.util:
        for bi, t in b.calls():
            for i, a in enumerate(t["args"]):
                o = origins(b, a)
                if any(d[0] == "arg" and "tokens" in d[2] and "lalrpop_util::state_machine::Parser" in b.local_ty(d[1]) for d in o):
                    n_pull += 1
                    c = callee_decl(t)
                    ok = b.path == nt.path and c == "std::iter::Iterator::next"
                    rep.ob("pull.only-in-next_token", "%s: %s on Parser.tokens" % (b.path, c), ok,
                           "the token iterator is used outside Parser::next_token (or by something other than Iterator::next): "
                           "tokens can be consumed beyond the one being examined",
                           key="pull-site:%s:%s" % (b.path.split("::")[-1], c), file=b.relfile(), line=t["ln"], fn=b.path)
    rep.floor("uses of Parser.tokens", n_pull, 1)
    callers = set()
    for b in sm.util:
        for bi, t in b.calls():
            if callee_of(t) == nt.path:
                callers.add(b.path)
    ok = callers <= {parse.path, er.path}
    rep.ob("pull.callers-of-next_token", "callers=%s" % sorted(c.split("::")[-1] for c in callers), ok and bool(callers),
           "next_token is called from %s (expected only parse and error_recovery)" % sorted(callers),
           key="next_token-callers:%s" % ",".join(sorted(c.split("::")[-1] for c in callers - {parse.path, er.path})),
           file=nt.relfile(), line=nt.line, fn=nt.path)
    # in parse, the pull sits at the head of the shift loop: every pull is followed (dominance) by the action decode
    # ---- (2a) no-recovery side of error_recovery
    uses = sm.calls(er, PD + "uses_error_recovery")
    if not rep.floor("uses_error_recovery() tests in error_recovery", len(uses), 1):
        return rep
    ub, ut = uses[0]
    udest = ut["dest"]["l"]
    norec_targets = []
    for bi, bl in enumerate(er.blocks):
        t = bl["t"]
        if t["k"] != "switch":
            continue
        pol = None
        for d in origins(er, t["o"]):
            if d[0] == "call" and d[1] == callee_of(ut) and d[2] == ub:
                pol = True      # operand == uses_error_recovery()
            if d[0] == "other" and d[1] >= 0:
                r = er.blocks[d[1]]["s"][d[2]]["r"]
                if r["k"] == "unop" and r["op"] == "Not" and udest in core.slice_locals(er, [r["o"]]):
                    pol = False  # operand == !uses_error_recovery()
        if pol is None:
            continue
        zero = [x for v, x in t["targets"] if v == 0]
        # edge taken when uses_error_recovery() is false
        norec_targets += zero if pol else [t["otherwise"]]
        if not er.dominates(bi, bi):
            pass
        first_switch = bi
    if not rep.floor("branches on uses_error_recovery()", len(norec_targets), 1):
        return rep
    # the test must come first: nothing forbidden before it
    before = er.reaches([first_switch]) - {first_switch}
    region = er.reachable(norec_targets)
    n_region_calls = 0
    for bi in sorted(region | before):
        t = er.blocks[bi]["t"]
        if t["k"] != "call":
            continue
        n_region_calls += 1
        c = callee_decl(t) or ""
        r = callee_of(t) or ""
        bad = FORBIDDEN_NO_RECOVERY.search(c) or FORBIDDEN_NO_RECOVERY.search(r)
        where = "before the test" if bi in before and bi not in region else "on the no-recovery side"
        rep.ob("norecovery.no-pull-no-reduce", "%s bb%d %s (%s)" % (er.path.split("::")[-1], bi, c.split("::")[-1], where), not bad,
               "for grammars without error recovery, error_recovery calls %s %s: a token is read or an action runs after the error was detected" % (c, where),
               key="norecovery:%s" % c.split("::")[-1], file=er.relfile(), line=t["ln"], fn=er.path)
    rep.analysed["calls_on_no_recovery_side"] = n_region_calls
    # returns on the no-recovery side are Done(Err(unrecognized_token_error(..)))
    # ---- (2b) error_recovery only on the None side of the decodes
    for body, need in ((parse, ("as_shift", "as_reduce")), (eof, ("as_reduce",))):
        ers = [bi for bi, t in body.calls() if callee_of(t) == er.path]
        rep.floor("error_recovery call sites in %s" % body.path.split("::")[-1], len(ers), 1)
        for e in ers:
            for name in need:
                decs = [bi for bi, t in body.calls() if (callee_decl(t) or "") == PA + name and body.dominates(bi, e)]
                okd = bool(decs)
                for dbi in decs:
                    r = none_side_block(body, dbi)
                    if r is None:
                        okd = False
                        continue
                    swb, some, none = r
                    okd = okd and none is not None and body.dominates(none, e) and set(body.pred[none]) == {swb} and none != some
                rep.ob("recovery-entry.only-when-no-%s" % name[3:], "%s bb%d" % (body.path.split("::")[-1], e), okd,
                       "error_recovery is reachable although the current action decodes as a %s (or the decode does not dominate it)" % name[3:],
                       key="recovery-entry:%s:%s" % (body.path.split("::")[-1], name), file=body.relfile(),
                       line=body.blocks[e]["t"]["ln"], fn=body.path)
    # ---- (3) last_location
    n_store = 0
    for b in sm.util:
        for bi, si, s in b.stmts():
            if s["k"] == "assign" and any(e[0] == "field" and e[2] == "last_location" for e in s["p"]["pr"]):
                n_store += 1
                o = origins(b, s["r"]["o"]) if s["r"]["k"] == "use" else {("other",)}
                good = all(d[0] == "call" and d[1] == "std::iter::Iterator::next" and d[3][-1:] == ("2",) for d in o) and b.path == nt.path
                rep.ob("last_location.store-source", "%s bb%d" % (b.path.split("::")[-1], bi), good,
                       "last_location is assigned from %s (expected: the end position `.2` of the triple returned by the token iterator)" % sorted(o)[:3],
                       key="last_location-store:%s" % b.path.split("::")[-1], file=b.relfile(), line=s["ln"], fn=b.path)
                if b.path == nt.path:
                    # dominates every exit that yields a token or a token-index error
                    for bj, sj, sd in b.stmts():
                        if sd["k"] == "assign" and sd["r"]["k"] == "agg" and sd["r"].get("adt", "").endswith("NextToken"):
                            v = sd["r"]["variant"]
                            if v == "FoundToken" or (v == "Done" and any(d[0] == "call" and d[1].endswith("unrecognized_token_error") for d in origins(b, sd["r"]["ops"][0], through_agg=True))):
                                rep.ob("last_location.updated-before-yield", "next_token %s at bb%d" % (v, bj), b.dominates(bi, bj),
                                       "next_token yields %s without having recorded the token's end location" % v,
                                       key="last_location-late:%s" % v, file=b.relfile(), line=sd["ln"], fn=b.path)
        for bi, si, s in b.stmts():
            if s["k"] == "assign" and s["r"]["k"] == "agg" and s["r"].get("adt") == "lalrpop_util::state_machine::Parser":
                idx = s["r"]["fields"].index("last_location")
                o = origins(b, s["r"]["ops"][idx])
                good = all(d[0] == "call" and d[1] == PD + "start_location" for d in o)
                n_store += 1
                rep.ob("last_location.initial-value", "%s Parser{..}" % b.path.split("::")[-1], good,
                       "initial last_location is %s, expected definition.start_location()" % sorted(o)[:3],
                       key="last_location-init", file=b.relfile(), line=s["ln"], fn=b.path)
    rep.floor("writes of Parser.last_location", n_store, 2)
    ute = sm.b["unrecognized_token_error"]
    n_eof = 0
    for bi, si, s in ute.stmts():
        if s["k"] == "assign" and s["r"]["k"] == "agg" and s["r"].get("variant") == "UnrecognizedEof":
            n_eof += 1
            idx = s["r"]["fields"].index("location")
            o = origins(ute, s["r"]["ops"][idx])
            good = all(d[0] == "arg" and d[1] == 1 and "last_location" in d[2] for d in o) and bool(o)
            rep.ob("eof-error.location-is-last_location", "unrecognized_token_error", good,
                   "UnrecognizedEof.location comes from %s" % sorted(o)[:3], key="eof-location-source",
                   file=ute.relfile(), line=s["ln"], fn=ute.path)
    rep.floor("UnrecognizedEof constructions", n_eof, 1)
    # ---- (4) ascent wildcard arm
    T = f.tmpl
    ws = [m for m in T.macros if m["macro"] == "rust" and m["file"].endswith("lr1/codegen/ascent.rs") and m["fn"].endswith("::write_state_fn") and m["fmt"]]
    ws.sort(key=lambda m: m["seq"])
    starts = [i for i, m in enumerate(ws) if re.match(r"^\s*_\s*=>\s*\{\s*$", tu.cooked(m["fmt"]))]
    n_arm = 0
    for i in starts:
        arm = []
        seen_tok = False
        for m in ws[i + 1:i + 80]:
            c = tu.cooked(m["fmt"])
            arm.append(m)
            if "UnrecognizedToken" in c:
                seen_tok = True
            if "UnrecognizedEof" in c:
                break
        if not seen_tok:
            continue   # a wildcard arm of another match (e.g. the goto match)
        n_arm += 1
        pulls = [m for m in arm if re.search(r"next_token|tokens\s*\.\s*next\s*\(", tu.cooked(m["fmt"]))]
        rep.ob("ascent.error-arm-does-not-pull", "%s (%d templates up to UnrecognizedEof)" % (tu.short(ws[i]), len(arm)), not pulls,
               "the recursive-ascent error arm emits a token pull before returning the error: %s" % [tu.short(p) for p in pulls],
               key="ascent-error-arm-pulls", file=ws[i]["file"], line=ws[i]["line"], fn=ws[i]["fn"])
    rep.floor("error arms in ascent write_state_fn", n_arm, 1)
    # ascent: the EOF error location is the END (.2) of the last symbol on the stack; the token is reported as is
    loc_t = [m for m in ws if re.search(r"·\w+·location\b", tu.cooked(m["fmt"])) or re.search(r"\|sym\|\s*sym\.", tu.cooked(m["fmt"]))]
    n_loc = 0
    for m in loc_t:
        c = tu.cooked(m["fmt"])
        for mm in re.finditer(r"sym(?:·\w+·)?\s*\.\s*(\d)", c):
            n_loc += 1
            rep.ob("ascent.eof-location-is-end-of-last-symbol", "%s `%s`" % (tu.short(m), c.strip()[:80]), mm.group(1) == "2",
                   "the recursive-ascent EOF error takes field .%s of the last symbol (the end of the last token is field .2)" % mm.group(1),
                   key="ascent-eof-location:.%s" % mm.group(1), file=m["file"], line=m["line"], fn=m["fn"])
    rep.floor("ascent EOF location projections", n_loc, 2)
    # when the top stack slots are optional any of them may already be empty: the location must fall back through
    # every optional slot, i.e. the probe is emitted once per optional slot (under a `for` over them)
    probes = [m for m in loc_t if re.search(r"as_ref\(\)\s*\.\s*map\(\|sym\|", tu.cooked(m["fmt"]))]
    for m in probes:
        loops = [g for g in m["guards"] if g["kind"] == "for"]
        in_opt = any(g["kind"] in ("if", "else") and "optional" in g["cond"] for g in m["guards"])
        ok = bool(loops) and any("optional" in g["cond"] for g in loops)
        rep.ob("ascent.eof-location-probes-every-optional-slot", "%s `%s` for-guards=%s" % (tu.short(m), tu.cooked(m["fmt"]).strip()[:60], [g["cond"] for g in loops]), ok or not in_opt,
               "the EOF location for a stack whose top slots are optional is read from a single slot instead of falling back through every optional slot: "
               "when that slot has been consumed (or is not the top) the error reports the end of an earlier token or the default location",
               key="ascent-eof-location-single-probe", file=m["file"], line=m["line"], fn=m["fn"])
    rep.floor("ascent optional-slot probes", len(probes), 1)
    tok_t = [m for m in ws if re.match(r"^\s*token\s*:", tu.cooked(m["fmt"]))]
    for m in tok_t:
        c = tu.cooked(m["fmt"]).strip()
        rep.ob("ascent.error-token-verbatim", "%s `%s`" % (tu.short(m), c), re.fullmatch(r"token:\s*·\w+·token,", c) is not None,
               "the unrecognized token is not reported as pulled", key="ascent-error-token", file=m["file"], line=m["line"], fn=m["fn"])
    # table-driven: UnrecognizedToken.token is the lookahead argument, unchanged
    for bi, si, s in ute.stmts():
        if s["k"] == "assign" and s["r"]["k"] == "agg" and s["r"].get("variant") == "UnrecognizedToken":
            idx = s["r"]["fields"].index("token")
            o = origins(ute, s["r"]["ops"][idx])
            rep.ob("error.token-verbatim", "unrecognized_token_error UnrecognizedToken.token <- %s" % sorted(o),
                   all(d[0] == "arg" and d[1] == 2 and d[2][-2:] == ("Some", "0") for d in o) and bool(o),
                   "the reported token is not the offending lookahead itself", key="error-token-source", file=ute.relfile(), line=s["ln"], fn=ute.path)
    return rep
