"""C11 -- lexer ambiguity is reported exactly when two equal-precedence terminals overlap
(clause: the ambiguity NFA uses one alphabet)."""
import re

from . import core, symex
from .core import callee_of
from .report import Report

LEVEL = "other"
EXPLANATION = (
    "Unit-consistency rule on the MIR of lexer::nfa::Nfa::expr (and its closures): edge labels (`Test`) of all "
    "regular expressions are compared with each other by the subset construction, so they must all live in one "
    "alphabet. Constructors of Test are tagged by their parameter types (u8 / ClassBytesRange = BYTE; char / "
    "ClassUnicodeRange = SCALAR VALUE). The build's alphabet is SCALAR when the crate is compiled with "
    "feature=\"unicode\" (the regexes are parsed in Unicode mode and classes arrive as ClassUnicode) and BYTE "
    "otherwise. The literal arm must use the build's alphabet, the Class::Unicode arm SCALAR, the Class::Bytes arm "
    "BYTE. Equivalence of the home-grown NFA with regex-automata is NOT decided.")

BYTE_TYS = ("u8", "regex_syntax::hir::ClassBytesRange")
SCALAR_TYS = ("char", "regex_syntax::hir::ClassUnicodeRange")


def run(tier, config="default"):
    rep = Report("C11", LEVEL, tier)
    rep.explanation = EXPLANATION
    rep.not_decided = "equivalence of the NFA/DFA overlap computation with the runtime matcher; precedence comparison; unsupported-feature diagnostics"
    rep.trusted = ["rustc MIR and types", "regex-syntax delivers Class::Unicode in Unicode mode and Class::Bytes otherwise"]
    configs = [config] if tier == "quick" else ["default", "nounicode"]
    for cfg in configs:
        f = core.Facts(core.ensure_facts(cfg))
        check_config(rep, f, cfg)
    return rep


def check_config(rep, f, cfg):
    crate = f.crates.get("lalrpop-lib", {})
    unicode = 'feature="unicode"' in crate.get("cfg", [])
    alphabet = "SCALAR" if unicode else "BYTE"
    rep.analysed["alphabet[%s]" % cfg] = alphabet
    ctors = {}
    for p, b in f.bodies.items():
        if b.unit != "lalrpop-lib" or b.kind == "promoted" or b.local_ty(0) != "lalrpop::lexer::nfa::Test":
            continue
        if not (p.startswith("lalrpop::lexer::nfa::Test::") or p.startswith("<lalrpop::lexer::nfa::Test as std::convert::From<")):
            continue
        args = [b.local_ty(i) for i in range(1, b.argc + 1)]
        if args and all(a in BYTE_TYS for a in args):
            ctors[p] = "BYTE"
        elif args and all(a in SCALAR_TYS for a in args):
            ctors[p] = "SCALAR"
    rep.analysed["test_constructors[%s]" % cfg] = ctors
    rep.floor("[%s] tagged Test constructors" % cfg, len(ctors), 6)
    ex = f.one(r"^lalrpop::lexer::nfa::Nfa::expr$")
    bodies = [(ex, None)]
    # closures, with the block of `expr` that creates them
    for cb in f.closures_of(ex):
        site = None
        for bi, si, s in ex.stmts():
            if s["k"] == "assign" and s["r"]["k"] == "agg" and s["r"].get("closure") == cb.path:
                site = bi
        bodies.append((cb, site))

    def ctx_of(block):
        """variant names of HirKind / Class downcasts in blocks dominating `block` of expr"""
        names = set()
        for bi, si, s in ex.stmts():
            if not ex.dominates(bi, block):
                continue
            places = []
            if s["k"] == "assign":
                r = s["r"]
                if r["k"] in ("use", "cast") and r["o"]["k"] != "const":
                    places.append(r["o"]["p"])
                elif r["k"] in ("ref", "copyforderef", "discr"):
                    places.append(r["p"])
            for pl in places:
                for e in pl["pr"]:
                    if e[0] == "downcast" and e[1] in ("Literal", "Class", "Unicode", "Bytes"):
                        names.add(e[1])
        return names

    n_sites = 0
    for b, site in bodies:
        uses = []
        for bi, t in b.calls():
            c = callee_of(t)
            if c in ctors:
                uses.append((bi, c, t["ln"]))
            elif c and c.endswith("::into") and "lalrpop::lexer::nfa::Test" in core.callee_args(t):
                # `range.into()` goes through the blanket Into impl to `impl From<X> for Test`
                ga = core.split_generic_args(core.callee_args(t))
                for p in ctors:
                    if p.startswith("<lalrpop::lexer::nfa::Test as std::convert::From<") and ga and ga[0] in p:
                        uses.append((bi, p, t["ln"]))
            for a in t["args"]:
                v = core.const_val(a)
                if v and "fn" in v and (v["res"] or v["fn"]) in ctors:
                    uses.append((bi, v["res"] or v["fn"], t["ln"]))
        for bi, c, ln in uses:
            ctx = ctx_of(site if site is not None else bi)
            if b is ex and site is None:
                ctx = ctx_of(bi)
            n_sites += 1
            tag = ctors[c]
            want = None
            arm = None
            if "Literal" in ctx:
                want, arm = alphabet, "HirKind::Literal"
            elif "Unicode" in ctx:
                want, arm = "SCALAR", "Class::Unicode"
            elif "Bytes" in ctx:
                want, arm = "BYTE", "Class::Bytes"
            if want is None:
                continue
            rep.ob("[%s] one-alphabet" % cfg, "%s arm of Nfa::expr uses %s (%s) at %s:%d" % (arm, c.split("::")[-1] if "From<" not in c else c, tag, b.relfile(), ln),
                   tag == want,
                   "the %s arm labels NFA edges in the %s alphabet, but this build's regex classes are compared in the %s alphabet "
                   "(feature unicode %s): a non-ASCII literal and a class containing the same character are never found to overlap "
                   "(e.g. terminals r\"\\u00e9\" and r\"[\\u00e9a]\" are accepted without an ambiguity error)" % (arm, tag, want, "on" if unicode else "off"),
                   key="alphabet:%s:%s" % (arm, tag), file=b.relfile(), line=ln, fn=b.path)
    rep.floor("[%s] Test constructor uses in Nfa::expr" % cfg, n_sites, 3)
    if cfg == "default":
        repetition_table(rep, f, ex)


def repetition_table(rep, f, ex):
    """The build-time NFA must give counted repetitions the meaning the runtime regex engine gives them:
    e? -> optional, e* -> star, e+ -> plus, e{n,} -> n mandatory copies followed by e* (symbolic evaluation of
    Nfa::expr: result term per path condition on (min, max))."""
    rets = symex.term_eval(f, ex, inline=lambda p: False, max_paths=600)
    n = 0
    seen = set()
    for r in rets:
        v = r[0]
        if not (v and v[0] == "app"):
            continue
        head = v[1][1].split("::")[-1] if v[1][0] == "fn" else "?"
        mins = [val for _, t, val in r.pc if symex.show_term(t).endswith("Repetition).0.min")]
        minv = mins[0] if mins else None
        maxs = [val for _, t, val in r.pc if symex.show_term(t).startswith("discr(") and symex.show_term(t).endswith("Repetition).0.max)")]
        if head in ("star_expr", "plus_expr", "optional_expr"):
            n += 1
            seen.add(head)
            want = {"star_expr": 0, "plus_expr": 1, "optional_expr": 0}[head]
            ok = minv == want and ((head == "optional_expr") == (bool(maxs) and maxs[-1] == 1))
            rep.ob("repetition.%s" % head, "Nfa::expr -> %s when min == %s, max %s" % (head, minv, "Some" if maxs and maxs[-1] == 1 else "None"), ok,
                   "%s is used for a repetition with min = %s" % (head, minv), key="repetition:%s" % head, file=ex.relfile(), line=ex.line, fn=ex.path)
        elif head == "and_then":
            n += 1
            inner = v[2][0] if v[2] else None
            ih = inner[1][1].split("::")[-1] if inner and inner[0] == "app" and inner[1][0] == "fn" else "?"
            seen.add("and_then:" + ih)
            rep.ob("repetition.at-least-n-ends-in-star", "Nfa::expr -> and_then(%s(..), |s| n copies)" % ih, ih == "star_expr",
                   "e{n,} is built as n mandatory copies followed by %s: the ambiguity check then works on e{n+1,} (or a different language) while the "
                   "runtime lexer matches e{n,}" % ih, key="repetition:at-least-n", file=ex.relfile(), line=ex.line, fn=ex.path)
    rep.ob("repetition.table-complete", sorted(seen), {"star_expr", "plus_expr", "optional_expr", "and_then:star_expr"} <= seen or any(x.startswith("and_then:") for x in seen) and {"star_expr", "plus_expr", "optional_expr"} <= seen,
           "repetition arms seen: %s" % sorted(seen), key="repetition:arms")
    rep.floor("repetition arms evaluated", n, 4)
