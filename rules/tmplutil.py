"""Helpers for template facts: cooking format strings, token scans, struct blocks."""
import re

PH = re.compile(r"\{\{|\}\}|\{([^{}]*)\}")


def segments(fmt):
    """[('lit', text) | ('ph', name, spec)] with {{ }} unescaped"""
    out = []
    pos = 0
    lit = ""
    n_pos = 0
    for m in PH.finditer(fmt):
        lit += fmt[pos:m.start()]
        pos = m.end()
        g = m.group(0)
        if g == "{{":
            lit += "{"
        elif g == "}}":
            lit += "}"
        else:
            if lit:
                out.append(("lit", lit))
                lit = ""
            inner = m.group(1)
            name, _, spec = inner.partition(":")
            if name == "":
                name = str(n_pos)
                n_pos += 1
            out.append(("ph", name, spec))
    lit += fmt[pos:]
    if lit:
        out.append(("lit", lit))
    return out


def cooked(fmt, ph="·"):
    """literal text with every placeholder replaced by `ph` + name + `ph`"""
    return "".join(s[1] if s[0] == "lit" else "%s%s%s" % (ph, s[1], ph) for s in segments(fmt))


def skeleton(fmt):
    """literal text only (placeholders removed)"""
    return "".join(s[1] for s in segments(fmt) if s[0] == "lit")


def arg_of(m, name):
    """expression tokens bound to placeholder `name` (positional index or identifier)"""
    named = {a["name"]: a["expr"] for a in m["args"] if a["name"]}
    if name in named:
        return named[name]
    pos = [a["expr"] for a in m["args"] if not a["name"]]
    if name.isdigit():
        i = int(name)
        if i < len(pos):
            return pos[i]
        return None
    # inline captured identifier `{ident}`
    return name


IDENT = re.compile(r"'?[A-Za-z_][A-Za-z0-9_]*")


def idents(text):
    """identifier tokens of a Rust fragment; lifetimes ('a) keep their quote"""
    return IDENT.findall(text)


def by_fn(macros):
    d = {}
    for m in macros:
        d.setdefault((m["file"], m["fn"]), []).append(m)
    for v in d.values():
        v.sort(key=lambda m: m["seq"])
    return d


def short(m):
    return "%s:%d" % (m["file"], m["line"])
