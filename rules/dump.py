"""debug helper: python3 -m rules.dump <regex>  -- pretty-print MIR facts of matching bodies"""
import sys, json
from . import core

def fmt_place(p, b=None):
    s = "_%d" % p["l"]
    for e in p["pr"]:
        if e[0] == "deref": s = "(*%s)" % s
        elif e[0] == "field": s = "%s.%s" % (s, e[2])
        elif e[0] == "downcast": s = "(%s as %s)" % (s, e[1])
        elif e[0] == "index": s = "%s[_%d]" % (s, e[1])
        else: s = "%s.%s" % (s, e[0])
    return s

def fmt_op(o):
    if o["k"] == "const":
        v = o["v"]
        if "fn" in v: return "fn(%s%s)" % (v["res"] or v["fn"], "" if v["res"] else " UNRES " + v["args"])
        if "str" in v: return json.dumps(v["str"])
        if "int" in v: return str(v["int"])
        if "bool" in v: return str(v["bool"])
        return "const(%s:%s)" % (json.dumps(v)[:80], o["ty"][:40])
    if o["k"] in ("copy", "move"):
        return ("" if o["k"] == "copy" else "move ") + fmt_place(o["p"])
    return o["k"]

def fmt_rv(r):
    k = r["k"]
    if k == "use": return fmt_op(r["o"])
    if k == "ref": return "&%s%s" % ("mut " if r["mut"] else "", fmt_place(r["p"]))
    if k == "agg":
        head = r.get("adt", r["ak"]) + ("::" + r["variant"] if r.get("variant") else "") + (r.get("closure") or "")
        return "%s{%s}" % (head, ", ".join(fmt_op(o) for o in r["ops"]))
    if k == "binop": return "%s(%s, %s)" % (r["op"], fmt_op(r["a"]), fmt_op(r["b"]))
    if k == "unop": return "%s(%s)" % (r["op"], fmt_op(r["o"]))
    if k == "cast": return "%s as %s [%s]" % (fmt_op(r["o"]), r["ty"], r["ck"])
    if k == "discr": return "discr(%s)" % fmt_place(r["p"])
    if k == "copyforderef": return "deref_copy %s" % fmt_place(r["p"])
    return k + str({x: y for x, y in r.items() if x != "k"})[:100]

def dump(b, out=sys.stdout):
    print("==== %s  [%s:%d] argc=%d" % (b.path, b.file, b.line, b.argc), file=out)
    for i, l in enumerate(b.locals):
        if l.get("name") or i <= b.argc:
            print("   _%d: %s  %s" % (i, l["ty"][:100], l.get("name") or ""), file=out)
    for bi, bl in enumerate(b.blocks):
        print(" bb%d%s:" % (bi, " (cleanup)" if bl["cleanup"] else ""), file=out)
        for s in bl["s"]:
            if s["k"] == "assign":
                print("    %s = %s   // %d%s" % (fmt_place(s["p"]), fmt_rv(s["r"]), s["ln"], " exp" if s.get("exp") else ""), file=out)
            else:
                print("    %s" % s["k"], file=out)
        t = bl["t"]
        k = t["k"]
        if k == "call":
            print("    %s = CALL %s(%s) -> bb%s unwind %s  // %d %s" % (fmt_place(t["dest"]), fmt_op(t["f"]), ", ".join(fmt_op(a) for a in t["args"]), t["t"], t["unwind"], t["ln"], t.get("mac", "")), file=out)
        elif k == "switch":
            print("    SWITCH %s [%s] else bb%d  // %d" % (fmt_op(t["o"]), ", ".join("%s->bb%d" % (v, x) for v, x in t["targets"]), t["otherwise"], t["ln"]), file=out)
        elif k == "goto": print("    goto bb%d" % t["t"], file=out)
        elif k == "drop": print("    drop(%s) -> bb%d" % (fmt_place(t["p"]), t["t"]), file=out)
        elif k == "assert": print("    assert(%s == %s, %s) -> bb%d" % (fmt_op(t["c"]), t["expected"], t["msg"], t["t"]), file=out)
        else: print("    %s" % k, file=out)

if __name__ == "__main__":
    cfg = "default"
    f = core.Facts(core.ensure_facts(cfg))
    for b in f.find(sys.argv[1]):
        if "--nocleanup" in sys.argv:
            pass
        dump(b)
