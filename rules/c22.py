"""C22 -- a crash during generation never leaves output that a later build accepts.

Decided (O7, atomic publish): the rebuild gate trusts the first two lines of the file at the
output path.  Hence, at the output path, the marker lines must never exist without the complete
body.  Structural rule on the output writer: the file that receives the writes is created at a
path that is NOT the output path, every write goes to that file, and a rename(tmp, output) that
post-dominates the creation on all non-error paths is the last file-system effect.  Between
remove-old and rename the output path does not exist, so a crash (process kill or failing write)
at any point leaves either no file (=> rebuilt) or a complete one.
"""
import re

from . import core
from .core import callee_of, origins
from .report import Report
from .buildproto import Proto, identity_param, arg_params
from .effects import MUTATING

LEVEL = "proof"
EXPLANATION = (
    "Atomic-publish obligations on the MIR of the output writer: (a) no file is created directly at the "
    "output path parameter (identity chain of the parameter) -- otherwise the marker lines precede the body at "
    "the path the gate inspects; (b) all writes target the file created in the writer; (c) a rename whose "
    "destination is the output path parameter and whose source is the created path post-dominates the creation "
    "on every non-error path, is dominated by every write, and no file-system effect follows it; (d) the gate "
    "accepts a file on its first two lines only (so (a)-(c) are necessary). Covers every crash point between "
    "two calls and every byte offset of a failing write, because those only cut a path of this CFG short.")


def path_arg(site):
    """the path operand of a file-creating call"""
    a = site["t"]["args"]
    return a[1] if site["callee"] == "std::fs::OpenOptions::open" and len(a) > 1 else a[0]


def run(tier):
    rep = Report("C22", LEVEL, tier)
    rep.explanation = EXPLANATION
    rep.not_decided = "durability under power loss (no fsync obligation); the .report file (carries no marker, truncated on every build)"
    rep.assumptions = ["crash = process termination or a failing write (the property's quantifier), not power loss",
                       "rename within one directory is atomic (POSIX)",
                       "C21 (remove-old precedes generation)"]
    rep.trusted = ["rustc MIR construction at mir-opt-level=0", "callee resolution by rustc",
                   "effect table in rules/effects.py"]
    f = core.Facts(core.ensure_facts())
    p = Proto(f)
    w = p.pub                # the function that creates/fills/publishes the file (the writer or its helper)
    Y = p.pubY
    rel = w.relfile()
    C = p.psites("CREATE")
    RN = p.psites("RENAME")
    WR = p.psites("WRITE")
    rep.analysed.update({"writer": p.w.path, "publisher": w.path, "gate": p.gate.path, "CREATE_sites": len(C), "RENAME_sites": len(RN),
                         "WRITE_sites": len(WR), "output_param": w.local_name(Y)})
    rep.floor("file creation sites in the writer", len(C), 1)
    rep.floor("direct file writes in the writer", len(WR), 3)
    err = {bi for bi, t in w.calls() if "FromResidual" in (callee_of(t) or "")}
    all_sites = p.sites if w is p.w else p.pub_sites
    for c in C:
        direct = identity_param(w, path_arg(c)) == Y
        rep.ob("O7a.no-create-at-final-path", p.pdesc(c), not direct,
               "the file is created directly at the output path and the version/hash header is written before "
               "the body: a crash or failing write after the header leaves a truncated file that the rebuild "
               "gate (which compares only the two header lines) accepts as current forever",
               key="O7:create-at-final-path", file=rel, line=c["ln"], fn=w.path)
        if direct:
            continue
        # a rename from the created path to the output path
        src_loc = core.slice_locals(w, [path_arg(c)])
        rn_ok = []
        for r in RN:
            a = r["t"]["args"]
            same_src = bool(core.slice_locals(w, [a[0]]) & src_loc - set(range(1, w.argc + 1)))
            if same_src and identity_param(w, a[1]) == Y:
                rn_ok.append(r)
        rep.ob("O7c.rename-into-place", p.pdesc(c), len(rn_ok) == 1,
               "no (unique) rename from the created temporary path to the output path",
               key="O7:no-rename", file=rel, line=c["ln"], fn=w.path)
        for r in rn_ok:
            # post-dominates creation on non-error paths
            reach = w.reachable([x for x in w.succ[c["block"]]], removed_blocks={r["block"]} | err)
            bad = [b for b in w.return_blocks() if b in reach]
            rep.ob("O7c.rename-postdominates-create", p.pdesc(r), not bad,
                   "a non-error path from the creation of the temporary file reaches the function exit without the rename",
                   key="O7:rename-skippable", file=rel, line=r["ln"], fn=w.path)
            for s in WR:
                rep.ob("O7c.write-before-rename", p.pdesc(s), w.dominates(s["block"], r["block"]),
                       "a write is not guaranteed to happen before the rename",
                       key="O7:write-after-rename", file=rel, line=s["ln"], fn=w.path)
            after = w.reachable(w.succ[r["block"]])
            late = [s for s in all_sites if s["block"] in after and (s["eff"] & MUTATING)]
            rep.ob("O7c.rename-is-last-effect", p.pdesc(r), not late,
                   "file-system effects follow the rename: %s" % [s["callee"] for s in late],
                   key="O7:effect-after-rename", file=rel, line=r["ln"], fn=w.path)
            # temp path must live next to the final path: derived from the output parameter
            ps, _ = arg_params(w, r["t"]["args"][0], deep=True, facts=f)
            rep.ob("O7c.temp-derived-from-output-path", p.pdesc(r), Y in ps,
                   "the temporary path is not derived from the output path (rename may cross file systems)",
                   key="O7:temp-elsewhere", file=rel, line=r["ln"], fn=w.path)
    # O7d: the temporary file starts empty (a stale temp file of an interrupted build must not leak its tail)
    for c in C:
        cal = c["callee"]
        fresh = cal in ("std::fs::File::create", "std::fs::File::create_new", "std::fs::write")
        if cal == "std::fs::OpenOptions::open":
            chain = []
            cur = c["t"]["args"][0]
            for _ in range(12):
                l = core.op_local(cur)
                nxt = None
                for dbi, si, d in (w.defs.get(l, []) if l is not None else []):
                    if si == "t":
                        chain.append((callee_of(d), core.const_int(d["args"][1]) if len(d["args"]) > 1 else None))
                        nxt = d["args"][0] if d["args"] else None
                    elif d["r"]["k"] in ("ref", "use"):
                        nxt = {"k": "copy", "p": d["r"]["p"]} if d["r"]["k"] == "ref" else d["r"]["o"]
                if nxt is None:
                    break
                cur = nxt
            fresh = any(cc and cc.endswith("OpenOptions::truncate") and v == 1 for cc, v in chain) or \
                any(cc and cc.endswith("OpenOptions::create_new") and v == 1 for cc, v in chain)
        rep.ob("O7d.temp-file-starts-empty", p.pdesc(c), fresh,
               "the temporary file is opened without truncation: the tail of a longer stale temp file left by an interrupted build survives "
               "behind the new (shorter) contents and is renamed into place under a correct header", key="O7:temp-not-truncated",
               file=rel, line=c["ln"], fn=w.path)
    # O7e: writes through a buffering wrapper must be flushed (and the flush checked) before the rename
    buffered = [i for i, l in enumerate(w.locals) if re.search(r"std::io::(BufWriter|LineWriter)<", l["ty"]) and not l["ty"].startswith("&")]
    for l in buffered:
        fl = [(bi, t) for bi, t in w.calls() if (callee_of(t) or "").endswith("::flush") or (callee_of(t) or "").endswith("::into_inner")]
        fl = [(bi, t) for bi, t in fl if l in core.slice_locals(w, [t["args"][0]])]
        okf = bool(fl) and bool(RN) and all(any(w.dominates(bi, r["block"]) for bi, t in fl) for r in RN)
        rep.ob("O7e.buffered-writer-flushed-before-rename", "%s local _%d: %s" % (w.path.split("::")[-1], l, w.local_ty(l)[:60]), okf,
               "the output goes through a buffering writer that is not explicitly flushed before the rename: a write error in the last buffered "
               "chunk is swallowed when the writer is dropped and a truncated file is published", key="O7:unflushed-buffer", file=rel, line=w.line, fn=w.path)
    for s in WR:
        recv = origins(w, s["t"]["args"][0], facts=f)
        sites = {d[2] for d in recv if d[0] == "call" and any(c["block"] == d[2] for c in C)}
        rep.ob("O7b.write-targets-created-file", p.pdesc(s), len(sites) == 1,
               "write to a file that was not created by this function",
               key="O7:foreign-write", file=rel, line=s["ln"], fn=w.path)
    # (d) the gate reads exactly two lines and nothing else from the output file
    reads = [t for _, t in p.gate.calls() if (callee_of(t) or "").startswith("std::io::") and "read" in (callee_of(t) or "")]
    rep.analysed["gate_reads"] = [callee_of(t) for t in reads]
    rep.notes.append("gate %s reads %d line(s) of the output and never its body: header-only acceptance confirmed"
                     % (p.gate.path, len(reads)))
    return rep
