"""C28 -- ParseError helpers (clause: the three maps and From<E>).

Decided by symbolic evaluation of the MIR of map_intern (with its `maptok` closure inlined), of the
three public wrappers and of From<E>::from: the returned value is computed as a *term* over the
inputs for every path, and compared with the term the documentation prescribes, derived from the
ADT definition of ParseError (field of type L -> loc_op(field), (L,T,L) -> (loc_op(.0), tok_op(.1),
loc_op(.2)), E -> err_op(field), anything else -> unchanged, same variant).
"""
from . import core, symex
from .core import callee_of, origins
from .report import Report

LEVEL = "proof"
EXPLANATION = (
    "Symbolic (term-level) evaluation of every return path of ParseError::map_intern, map_location, map_token, "
    "map_error and From<E>::from over their MIR; one obligation per variant (same variant returned), per field "
    "and per tuple position (the prescribed operator applied to exactly that input component, `expected` moved "
    "unchanged), per wrapper slot (op in its own slot, identity closures elsewhere). Parametricity (L,T,E are "
    "type parameters) makes the term equality a full functional specification of the three maps.")


def A(variant, field):
    return ("proj", ("proj", ("sym", "arg1"), ("as", variant)), ("field", field))


def expected_term(field_ty, base, ops):
    t = field_ty.replace(" ", "")
    if t == "L":
        return ("app", ops["L"], (base,))
    if t == "T":
        return ("app", ops["T"], (base,))
    if t == "E":
        return ("app", ops["E"], (base,))
    if t == "(L,T,L)":
        return ("tuple", tuple(("app", ops[k], (("proj", base, ("field", str(i))),)) for i, k in enumerate("LTL")))
    if any(x in ("L", "T", "E") for x in __import__("re").findall(r"\b[A-Z]\b", t)):
        return None   # a shape this rule does not know: fail closed
    return base


def run(tier):
    rep = Report("C28", LEVEL, tier)
    rep.explanation = EXPLANATION
    rep.not_decided = "the Display strings (value-level formatting of messages and separators): declined, see DESIGN.md"
    rep.trusted = ["rustc MIR at mir-opt-level=0", "term evaluator rules/symex.py (straight-line MIR, enum matches, closure inlining)"]
    rep.assumptions = ["the user-supplied closures are arbitrary (uninterpreted function symbols)"]
    f = core.Facts(core.ensure_facts())
    adt = f.adts.get("lalrpop_util::ParseError")
    if adt is None:
        rep.anchor_missing("lalrpop_util::ParseError")
        return rep
    mi = f.one(r"^lalrpop_util::ParseError::<L, T, E>::map_intern$")
    rel = mi.relfile()
    ops = {"L": ("sym", "arg2"), "T": ("sym", "arg3"), "E": ("sym", "arg4")}
    paths = symex.term_eval(f, mi)
    rep.analysed["map_intern_return_paths"] = len(paths)
    got = {}
    for v, p in paths:
        if v and v[0] == "adt":
            got.setdefault(v[1].split("::")[-1], []).append(v)
        else:
            rep.violation("map_intern.returns-a-variant", mi.path, "a return path yields %s" % symex.show_term(v),
                          key="map_intern:opaque-return", file=rel, line=mi.line, fn=mi.path)
    n_leaf = 0
    for var in adt["variants"]:
        vn = var["name"]
        outs = got.get(vn, [])
        rep.ob("map_intern.same-variant", "ParseError::%s" % vn, len(outs) >= 1,
               "no return path builds ParseError::%s (input variant %s is mapped to another variant)" % (vn, vn),
               key="map_intern:variant:%s" % vn, file=rel, line=mi.line, fn=mi.path)
        for out in outs:
            for i, fld in enumerate(var["fields"]):
                exp = expected_term(fld["ty"], A(vn, fld["name"]), ops)
                act = out[3][i] if i < len(out[3]) else None
                if exp is None:
                    rep.violation("map_intern.field", "%s.%s" % (vn, fld["name"]), "field type %s not understood" % fld["ty"],
                                  key="map_intern:unknown-field-type:%s.%s" % (vn, fld["name"]), file=rel, line=mi.line, fn=mi.path)
                    continue
                if exp[0] == "tuple":
                    for j in range(len(exp[1])):
                        a = act[1][j] if act and act[0] == "tuple" and j < len(act[1]) else None
                        n_leaf += 1
                        rep.ob("map_intern.field", "%s.%s.%d" % (vn, fld["name"], j), a == exp[1][j],
                               "component %d of %s.%s is %s, expected %s" % (j, vn, fld["name"], symex.show_term(a), symex.show_term(exp[1][j])),
                               key="map_intern:%s.%s.%d" % (vn, fld["name"], j), file=rel, line=mi.line, fn=mi.path)
                else:
                    n_leaf += 1
                    rep.ob("map_intern.field", "%s.%s" % (vn, fld["name"]), act == exp,
                           "field %s.%s is %s, expected %s" % (vn, fld["name"], symex.show_term(act), symex.show_term(exp)),
                           key="map_intern:%s.%s" % (vn, fld["name"]), file=rel, line=mi.line, fn=mi.path)
            rep.sample({"variant": vn, "returns": symex.show_term(out)})
    rep.floor("ParseError field/tuple-position obligations", n_leaf, 11)
    # wrappers
    slots = {"map_location": 1, "map_token": 2, "map_error": 3}
    for name, slot in slots.items():
        b = f.one(r"^lalrpop_util::ParseError::<L, T, E>::%s$" % name)
        r = symex.term_eval(f, b, inline=lambda p: "{closure#" in p)
        ok_shape = len(r) == 1 and r[0][0] and r[0][0][0] == "app" and r[0][0][1] == ("fn", mi.path) and len(r[0][0][2]) == 4
        rep.ob("wrapper.delegates", name, ok_shape, "%s does not simply return map_intern(..): %s" % (name, [symex.show_term(x[0]) for x in r]),
               key="wrapper:%s:shape" % name, file=b.relfile(), line=b.line, fn=b.path)
        if not ok_shape:
            continue
        args = r[0][0][2]
        rep.ob("wrapper.self", name, args[0] == ("sym", "arg1"), "self is not passed through", key="wrapper:%s:self" % name,
               file=b.relfile(), line=b.line, fn=b.path)
        for i in (1, 2, 3):
            a = args[i]
            if i == slot:
                # (parametricity: any closure of the right type in this slot must use the user's op)
                rep.ob("wrapper.op-in-own-slot", "%s slot %d" % (name, i), a == ("sym", "arg2") or (a and a[0] == "closure" and ("sym", "arg2") in a[2]),
                       "the user's closure is not passed in slot %d (got %s)" % (i, symex.show_term(a)),
                       key="wrapper:%s:slot%d" % (name, i), file=b.relfile(), line=b.line, fn=b.path)
            else:
                ident = False
                if a and a[0] == "closure":
                    cb = f.body(a[1])
                    if cb is not None:
                        rr = symex.term_eval(f, cb)
                        ident = len(rr) == 1 and rr[0][0] == ("sym", "arg2")
                rep.ob("wrapper.identity-elsewhere", "%s slot %d" % (name, i), ident,
                       "slot %d is not an identity closure (got %s)" % (i, symex.show_term(a)),
                       key="wrapper:%s:slot%d" % (name, i), file=b.relfile(), line=b.line, fn=b.path)
    display_rules(rep, f)
    fr = f.one(r"^<lalrpop_util::ParseError<L, T, E> as std::convert::From<E>>::from$")
    r = symex.term_eval(f, fr)
    ok = len(r) == 1 and r[0][0] and r[0][0][0] == "adt" and r[0][0][1].endswith("::User") and r[0][0][3] == (("sym", "arg1"),)
    rep.ob("from.builds-user", fr.path, ok, "From<E>::from returns %s" % [symex.show_term(x[0]) for x in r],
           key="from:not-user", file=fr.relfile(), line=fr.line, fn=fr.path)
    return rep


DOCUMENTED = {
    "User": "{error}",
    "InvalidToken": "Invalid token at {location}",
    "UnrecognizedEof": "Unrecognized EOF found at {location}",
    "UnrecognizedToken": "Unrecognized token `{token}` found at {start}:{end}",
    "ExtraToken": "Extra token {token} found at {start}:{end}",
}


def eval_sep_arms(arms, i, n):
    """evaluate the `match i { ... }` arms of fmt_expected (syntax) for index i of a list of length n"""
    import re
    for pat, val in arms:
        p = pat.strip()
        if re.fullmatch(r"\d+", p):
            if i == int(p):
                return val
            continue
        if p == "_":
            return val
        m = re.fullmatch(r"_\s+if\s+i\s*(<|<=)\s*expected\s*\.\s*len\s*\(\s*\)\s*(?:-\s*(\d+))?", p)
        if m:
            bound = n - int(m.group(2) or 0)
            if (i < bound) if m.group(1) == "<" else (i <= bound):
                return val
            continue
        m = re.fullmatch(r"_\s+if\s+i\s*\+\s*(\d+)\s*(<|<=)\s*expected\s*\.\s*len\s*\(\s*\)", p)
        if m:
            lhs = i + int(m.group(1))
            if (lhs < n) if m.group(2) == "<" else (lhs <= n):
                return val
            continue
        return None
    return None


def display_rules(rep, f):
    """Display: the per-variant templates are the documented ones, spans are bound start/token/end in tuple
    order, and the expected list renders as `\\nExpected one of a, b or c` (abstract evaluation of the
    separator arms for lists of length 0..4)."""
    import re
    T = f.tmpl_util
    arms = [m for m in T.macros if m["macro"] == "write" and re.search(r"<ParseError<L,T,E>\s*as\s*(fmt::)?Display>::fmt$", m["fn"])]
    rep.floor("Display arms of ParseError", len(arms), 5)
    seen = set()
    for m in arms:
        pat = [g["pat"] for g in m["guards"] if g["kind"] == "match"]
        vn = re.match(r"\s*(\w+)", pat[-1]).group(1) if pat else "?"
        seen.add(vn)
        ok = DOCUMENTED.get(vn) == m["fmt"]
        rep.ob("display.variant-template", "ParseError::%s => %r" % (vn, m["fmt"]), ok,
               "Display of %s prints %r, documented form is %r" % (vn, m["fmt"], DOCUMENTED.get(vn)), key="display:%s" % vn,
               file=m["file"], line=m["line"], fn=m["fn"])
        if "start" in (m["fmt"] or ""):
            tup = re.search(r"token\s*:\s*\(\s*ref\s+(\w+)\s*,\s*ref\s+(\w+)\s*,\s*ref\s+(\w+)\s*\)", pat[-1])
            rep.ob("display.span-binding-order", "ParseError::%s binds %s" % (vn, tup.groups() if tup else "?"), bool(tup) and tup.groups() == ("start", "token", "end"),
                   "the token triple is not bound as (start, token, end): the printed span is swapped", key="display-binding:%s" % vn,
                   file=m["file"], line=m["line"], fn=m["fn"])
    rep.ob("display.all-variants", sorted(seen), seen == set(DOCUMENTED), "Display arms %s" % sorted(seen), key="display:variants")
    # fmt_expected
    lits = [l for l in T.lits if l["fn"].endswith("fmt_expected") and any(g["kind"] == "match" for g in l["guards"])]
    sep_arms = [([g["pat"] for g in l["guards"] if g["kind"] == "match"][-1], l["value"]) for l in sorted(lits, key=lambda l: l["line"])]
    item = [m for m in T.macros if m["fn"].endswith("fmt_expected") and m["macro"] == "write"]
    head = [m for m in T.macros if m["fn"].endswith("fmt_expected") and m["macro"] == "writeln" and m["fmt"] is None]
    ok = len(item) == 1 and item[0]["fmt"] == "{sep} {e}" and len(head) == 1 and any(g["kind"] == "for" for g in item[0]["guards"]) \
        and not any(g["kind"] == "for" for g in head[0]["guards"])
    names = ["a", "b", "c", "d"]
    renders = {}
    if ok:
        for n in range(0, 5):
            out = "" if n == 0 else "\n"
            for i in range(n):
                sep = eval_sep_arms(sep_arms, i, n)
                if sep is None:
                    ok = False
                    break
                out += "%s %s" % (sep, names[i] if i < 4 else "x")
            renders[n] = out
        want = {0: "", 1: "\nExpected one of a", 2: "\nExpected one of a or b", 3: "\nExpected one of a, b or c", 4: "\nExpected one of a, b, c or d"}
        ok = ok and renders == want
    rep.ob("display.expected-list-format", "fmt_expected arms %s -> %s" % (sep_arms, {k: v for k, v in renders.items() if k in (1, 3)}), ok,
           "the expected-token list is not rendered as `Expected one of a, b or c` (abstract evaluation for lengths 0..4 gives %s)" % renders,
           key="display:expected-format", file="lalrpop-util/src/lib.rs", line=item[0]["line"] if item else 0)
    # fmt_expected is used by exactly the two Unrecognized* arms, on their own `expected`
    disp = f.one(r"^<lalrpop_util::ParseError<L, T, E> as std::fmt::Display>::fmt$")
    fe = [t for _, t in disp.calls() if (callee_of(t) or "").endswith("lalrpop_util::fmt_expected")]
    vs = set()
    for t in fe:
        for d in origins(disp, t["args"][1]):
            if d[0] == "arg":
                vs.add(tuple(x for x in d[2] if x in ("UnrecognizedEof", "UnrecognizedToken", "expected")))
    rep.ob("display.expected-list-attached", "fmt_expected called for %s" % sorted(vs),
           vs == {("UnrecognizedEof", "expected"), ("UnrecognizedToken", "expected")},
           "the expected list is not printed for exactly UnrecognizedEof and UnrecognizedToken", key="display:expected-attached",
           file=disp.relfile(), line=disp.line, fn=disp.path)
