"""C09 -- the built-in lexer tokenizes by longest match with documented precedence (clause: precedence encoding and index agreement)."""
import json
import re

from . import core, symex
from . import tmplutil as tu
from .core import callee_of, origins
from .report import Report

LEVEL = "other"
EXPLANATION = (
    "The tie-break among equal-length matches is implemented by an encoding spread over five places that must "
    "agree: (a) both sites that create a MatchEntry compute precedence = rung * k + base with the same k, and "
    "base_precedence (Quoted -> 1, Regex -> 0) is strictly below k with Quoted above Regex; (b) MatchEntry derives "
    "Ord with `precedence` as its first field and construct() sorts the entries before they are numbered and handed "
    "to the DFA / InternToken; (c) rungs are numbered len - idx (earlier rung = higher) and the absence of a match "
    "block is the catch-all at rung 0; (d) lower() enumerates the entries before dropping skip entries (so terminal "
    "indices are positions in the sorted list) and intern_token::compile emits one pattern per entry in that same "
    "order with the implicit white-space skip appended last; (e) the runtime picks Iterator::max over the pattern ids "
    "of the longest match. That the lazy DFA finds the longest match is NOT decided.")


def binop_of(body, op):
    """the binop rvalue an operand directly originates from (through copies / overflow tuples)"""
    for d in origins(body, op):
        if d[0] == "other" and d[1] >= 0:
            r = body.blocks[d[1]]["s"][d[2]]["r"]
            if r["k"] == "binop":
                return r
    return None


def run(tier):
    rep = Report("C09", LEVEL, tier)
    rep.explanation = EXPLANATION
    rep.not_decided = "that the hybrid DFA loop returns the longest match, spans as byte offsets, InvalidToken position"
    rep.trusted = ["rustc MIR", "derive(Ord) compares fields in declaration order"]
    f = core.Facts(core.ensure_facts())
    # ---- (a)
    sites = []
    for p, b in f.bodies.items():
        if b.unit != "lalrpop-lib" or b.kind == "promoted" or p.startswith("<"):
            continue      # derived impls (Clone) rebuild entries field by field
        for bi, si, s in b.stmts():
            if s["k"] == "assign" and s["r"]["k"] == "agg" and s["r"].get("adt") == "lalrpop::grammar::parse_tree::MatchEntry":
                sites.append((b, bi, s))
    rep.floor("MatchEntry constructions", len(sites), 2)
    ks = set()
    for b, bi, s in sites:
        idx = s["r"]["fields"].index("precedence")
        add = binop_of(b, s["r"]["ops"][idx])
        ok = False
        k = None
        if add and add["op"].startswith("Add"):
            for x, y in ((add["a"], add["b"]), (add["b"], add["a"])):
                mul = binop_of(b, x)
                base = origins(b, y)
                if mul and mul["op"].startswith("Mul"):
                    k = core.const_int(mul["b"]) if core.const_int(mul["b"]) is not None else core.const_int(mul["a"])
                    if k is not None and any(d[0] == "call" and d[1].endswith("TerminalLiteral::base_precedence") for d in base):
                        ok = True
        ks.add(k)
        rep.ob("precedence.formula", "%s: precedence = rung * %s + base_precedence()" % (b.path.split("::")[-1], k), ok,
               "this MatchEntry's precedence is not rung * k + sym.base_precedence()", key="precedence-formula:%s" % b.path.split("::")[-1],
               file=b.relfile(), line=s["ln"], fn=b.path)
    rep.ob("precedence.same-multiplier", "multipliers %s" % sorted(map(str, ks)), len(ks) == 1 and None not in ks,
           "the sites that create match entries use different rung multipliers: entries added from the grammar (`_`) and entries of the match block are ordered inconsistently",
           key="precedence-multiplier-mismatch")
    bp = f.one(r"^lalrpop::grammar::parse_tree::TerminalLiteral::base_precedence$")
    vals = {}
    adt = f.adts["lalrpop::grammar::parse_tree::TerminalLiteral"]
    for r in symex.term_eval(f, bp, inline=lambda p: False):
        v = r[0]
        for blk, term, val in r.pc:
            if term and term[0] == "app" and term[1][1] == "discr" and isinstance(val, int):
                vals[adt["variants"][val]["name"]] = v
        if not r.pc:
            vals["?"] = v
    k = next(iter(ks)) if len(ks) == 1 else None
    ok = set(vals) == {"Quoted", "Regex"} and all(v and v[0] == "c" for v in vals.values()) and k is not None and \
        all(0 <= v[1] < k for v in vals.values()) and vals["Quoted"][1] > vals["Regex"][1]
    rep.ob("precedence.base-below-multiplier", "base_precedence = %s, k = %s" % ({a: symex.show_term(b) for a, b in vals.items()}, k), ok,
           "base precedences are not strictly below the rung multiplier with Quoted above Regex: a literal of a later rung could outrank a regex of an earlier rung",
           key="base-precedence", file=bp.relfile(), line=bp.line, fn=bp.path)
    # ---- (b)
    me = f.adts.get("lalrpop::grammar::parse_tree::MatchEntry")
    ok = me is not None and me["variants"][0]["fields"][0]["name"] == "precedence"
    rep.ob("order.precedence-is-first-field", "MatchEntry fields %s" % [x["name"] for x in me["variants"][0]["fields"]] if me else "?", ok,
           "`precedence` is not the first field of MatchEntry: the derived ordering no longer sorts by precedence first", key="matchentry-field-order",
           file=me["file"] if me else None, line=me["line"] if me else None)
    derived = [i for i in f.impls if i["self"] == "lalrpop::grammar::parse_tree::MatchEntry" and i["trait"] in ("std::cmp::Ord", "std::cmp::PartialOrd")]
    rep.ob("order.ord-is-derived", "impls %s" % [(i["trait"], i["derived"]) for i in derived], len(derived) == 2 and all(i["derived"] for i in derived),
           "MatchEntry's ordering is not the derived (field-wise) one", key="matchentry-ord-not-derived")
    con = f.one(r"^lalrpop::normalize::token_check::construct$")
    sorts = [bi for bi, t in con.calls() if re.search(r"slice::<impl \[T\]>::sort(_unstable)?$", callee_of(t) or "")]
    users = [bi for bi, t in con.calls() if (callee_of(t) or "").endswith("dfa::build_dfa")]
    aggs = [bi for bi, si, s in con.stmts() if s["k"] == "assign" and s["r"]["k"] == "agg" and s["r"].get("adt", "").endswith("InternToken")]
    pushes = [bi for bi, t in con.calls() if (callee_of(t) or "").endswith("Vec::<T, A>::push")]
    ok = len(sorts) == 1 and bool(users) and bool(aggs) and all(con.dominates(sorts[0], x) for x in users + aggs + pushes)
    rep.ob("order.sorted-before-numbering", "construct: sort at %s, build_dfa at %s, InternToken at %s" % (sorts, users, aggs), ok,
           "match entries are not sorted by precedence before the DFA / the InternToken is built from them", key="construct-sort",
           file=con.relfile(), line=con.line, fn=con.path)
    # ---- (c)
    mb = f.one(r"^lalrpop::normalize::token_check::MatchBlock::new$")
    subs = [s for _, _, s in mb.stmts() if s["k"] == "assign" and s["r"]["k"] == "binop" and s["r"]["op"].startswith("Sub")]
    ok = False
    for s in subs:
        a = origins(mb, s["r"]["a"])
        b = origins(mb, s["r"]["b"])
        if any(d[0] == "call" and d[1].endswith("::len") for d in a) and any(d[0] == "call" and "Enumerate" in d[1] and d[1].endswith("::next") for d in b):
            ok = True
    rep.ob("rungs.earlier-rung-is-higher", "MatchBlock::new: precedence = contents.len() - idx", ok,
           "rung precedence is not len - idx (earlier `match` rung first)", key="rung-numbering", file=mb.relfile(), line=mb.line, fn=mb.path)
    zero = [s for _, _, s in mb.stmts() if s["k"] == "assign" and s["r"]["k"] == "agg" and s["r"].get("adt", "").endswith("Precedence") and
            s["r"]["ops"] and core.const_int(s["r"]["ops"][0]) == 0]
    rep.ob("rungs.no-match-block-is-catch-all-0", "MatchBlock::new: Precedence(0) without a match block", len(zero) == 1,
           "without a match block the catch-all rung is not 0", key="rung-default", file=mb.relfile(), line=mb.line, fn=mb.path)
    # ---- (d) lower: enumerate directly on the entry slice
    lo = f.one(r"^lalrpop::normalize::lower::LowerState::<'s>::lower$")
    enum = [(bi, t) for bi, t in lo.calls() if (callee_of(t) or "") == "std::iter::Iterator::enumerate" and "MatchEntry" in core.callee_args(t)]
    ok = len(enum) == 1 and all(d[0] == "call" and d[1].endswith("slice::<impl [T]>::iter") for d in origins(lo, enum[0][1]["args"][0], transparent=lambda c: None)) if enum else False
    rep.ob("indices.enumerate-before-filter", "lower: match_entries.iter().enumerate() %s" % [t["ln"] for _, t in enum], ok,
           "terminal indices are not positions in the full sorted entry list (enumerate is not applied directly to match_entries.iter())",
           key="lower-enumerate", file=lo.relfile(), line=lo.line, fn=lo.path)
    ic = f.one(r"^lalrpop::lexer::intern_token::compile$")
    chain = []
    for bi, t in ic.calls():
        c = callee_of(t) or ""
        if c.startswith("std::iter::Iterator::") or c.endswith("slice::<impl [T]>::iter"):
            chain.append(c.split("::")[-1])
    bad = [c for c in chain if c in ("filter", "filter_map", "rev", "skip", "take", "step_by", "chain", "zip")]
    rep.ob("indices.patterns-in-entry-order", "intern_token::compile iterator adaptors %s" % chain, "iter" in chain and not bad,
           "the emitted pattern list is not a 1:1 in-order image of the match entries (%s)" % bad, key="compile-pattern-order",
           file=ic.relfile(), line=ic.line, fn=ic.path)
    T = f.tmpl
    ms = sorted([m for m in T.macros if m["macro"] == "rust" and m["fmt"] and m["file"].endswith("lexer/intern_token/mod.rs")], key=lambda m: m["seq"])
    per_entry = [m for m in ms if re.match(r"^\(·0·,\s*·1·\),$", tu.cooked(m["fmt"]).strip()) and any(g["kind"] == "for" for g in m["guards"])]
    implicit = [m for m in ms if re.search(r"\\s", m["fmt"]) and "true" in m["fmt"]]
    ok = len(per_entry) == 1 and len(implicit) >= 1 and all(per_entry[0]["seq"] < x["seq"] for x in implicit) and \
        all(any(g["kind"] == "if" and "contains_skip" in g["cond"] for g in x["guards"]) for x in implicit)
    rep.ob("indices.implicit-skip-appended-last", "compile: per-entry template seq %s, implicit skip seq %s" % ([m["seq"] for m in per_entry], [m["seq"] for m in implicit]), ok,
           "the implicit white-space skip is not appended after all entries (it must get the highest pattern id) or is not conditional on the absence of a skip rule",
           key="implicit-skip-position", file="lalrpop/src/lexer/intern_token/mod.rs", line=implicit[0]["line"] if implicit else 0)
    # ---- (e) runtime
    nx = f.one(r"^<lalrpop_util::lexer::Matcher<.*> as std::iter::Iterator>::next$")
    toks = [(bi, s) for bi, si, s in nx.stmts() if s["k"] == "assign" and s["r"]["k"] == "agg" and s["r"].get("adt") == "lalrpop_util::lexer::Token"]
    ok = False
    for bi, s in toks:
        o = origins(nx, s["r"]["ops"][0], transparent=lambda c: [0] if c and c.endswith("Option::<T>::unwrap") else None)
        ok = any(d[0] == "call" and d[1] == "std::iter::Iterator::max" for d in o)
    rep.ob("runtime.highest-pattern-id-wins", "Matcher::next: Token index <- %s" % ("Iterator::max" if ok else "?"), ok and bool(toks),
           "the token index is not the maximum pattern id of the match state", key="runtime-max", file=nx.relfile(), line=nx.line, fn=nx.path)
    # every input byte is consumed through a DFA match: the text handed to the DFA is self.text itself and token spans are
    # (consumed, consumed + L) -- no pre-scan that skips or trims input outside the pattern set
    by = [(bi, t) for bi, t in nx.calls() if (callee_of(t) or "").endswith("str::<impl str>::bytes")]
    okb = len(by) == 1 and origins(nx, by[0][1]["args"][0], transparent=lambda c: None) == {("arg", 1, ("text",))}
    rep.ob("runtime.dfa-sees-the-whole-remaining-text", "Matcher::next: dfa input <- %s" % (sorted(origins(nx, by[0][1]["args"][0], transparent=lambda c: None)) if by else "?"), okb,
           "the text walked through the DFA is not self.text itself (some input is consumed outside the longest-match rule)",
           key="runtime-prescan", file=nx.relfile(), line=nx.line, fn=nx.path)
    for bi, si, s2 in nx.stmts():
        if s2["k"] == "assign" and s2["r"]["k"] == "agg" and s2["r"]["ak"] == "tuple" and len(s2["r"]["ops"]) == 3:
            o0 = origins(nx, s2["r"]["ops"][0], transparent=lambda c: None)
            mid = origins(nx, s2["r"]["ops"][1], transparent=lambda c: None)
            if not any(d[0] == "agg" for d in mid):
                continue
            rep.ob("runtime.token-start-is-consumed-offset", "Matcher::next: span start <- %s" % sorted(o0), o0 == {("arg", 1, ("consumed",))},
                   "the start of a token span is not the offset consumed so far", key="runtime-span-start", file=nx.relfile(), line=s2["ln"], fn=nx.path)
    sk = [s for _, _, s in nx.stmts() if s["k"] == "assign" and any(e[0] == "index" for e in (s["r"].get("o", {}).get("p", {}) or {}).get("pr", []))]
    return rep
