"""C10 -- literal and regex terminals match exactly their own language
(clause: build-time and run-time regex syntax configuration agree; literals are escaped; patterns are quoted)."""
import re
import tomllib

from . import core
from . import tmplutil as tu
from .core import callee_of, origins
from .report import Report

LEVEL = "other"
EXPLANATION = (
    "The generator parses every terminal with regex_syntax (for ambiguity checks and for re-rendering) and the "
    "runtime re-parses the rendered text with regex-automata. Rules: (1) the set of (option, value) pairs applied to "
    "regex_syntax::ParserBuilder in lexer::re::parse_regex equals the set applied to regex_automata's syntax Config in "
    "MatcherBuilder::new (values are the crate's cfg!(feature = \"unicode\") constant, read from MIR), and the Thompson "
    "utf8 option carries the same value; (2) Cargo features: lalrpop's `unicode` enables regex-syntax/unicode and "
    "lalrpop-util/unicode, lalrpop-util's `unicode` enables regex-automata's; (3) quoted literals reach parse_regex "
    "only through regex_syntax::escape; (4) both users of the terminals (token_check::construct and "
    "intern_token::compile) send Quoted to parse_literal and Regex to parse_regex; (5) the pattern text is emitted into "
    "the generated source through `{}` of the Hir followed by `{:?}` quoting. Round-tripping through regex_syntax's "
    "Display is trusted, not decided.")


def option_calls(body, type_rx):
    out = {}
    for bi, t in body.calls():
        c = callee_of(t) or ""
        m = re.match(type_rx + r"::(\w+)$", c)
        if m and len(t["args"]) == 2:
            v = core.const_int(t["args"][1])
            if v is None:
                for d in origins(body, t["args"][1]):
                    if d[0] == "const":
                        import json
                        j = json.loads(d[1])
                        v = (1 if j.get("bool") else 0) if "bool" in j else j.get("int")
            out[m.group(1)] = v
    return out


def run(tier):
    rep = Report("C10", LEVEL, tier)
    rep.explanation = EXPLANATION
    rep.not_decided = "that regex_syntax's Display of a Hir re-parses to an equivalent Hir for every supported regex; escaping inside the DFA library"
    rep.trusted = ["regex-syntax / regex-automata implement the same syntax for equal options", "rustc MIR constants"]
    for cfg in (["default"] if tier == "quick" else ["default", "nounicode"]):
        f = core.Facts(core.ensure_facts(cfg))
        unicode = 'feature="unicode"' in f.crates["lalrpop-lib"]["cfg"]
        uni_util = 'feature="unicode"' in f.crates["lalrpop_util-lib"]["cfg"]
        pr = f.one(r"^lalrpop::lexer::re::parse_regex$")
        mb = f.one(r"^lalrpop_util::lexer::MatcherBuilder::new$")
        gen = option_calls(pr, r"regex_syntax::ParserBuilder")
        run_ = option_calls(mb, r"regex_automata::util::syntax::Config")
        nfa = option_calls(mb, r"regex_automata::nfa::thompson::Config")
        rep.analysed["[%s] generator options" % cfg] = gen
        rep.analysed["[%s] runtime options" % cfg] = run_
        rep.ob("[%s] syntax-options-agree" % cfg, "generator %s vs runtime %s" % (gen, run_), gen == run_ and bool(gen) and None not in gen.values(),
               "the generator parses terminals with %s but the generated lexer compiles them with %s: a regex can mean different things at build time "
               "(ambiguity check, re-rendering) and at run time" % (gen, run_), key="syntax-options:%s" % cfg, file=pr.relfile(), line=pr.line, fn=pr.path)
        exp = 1 if unicode else 0
        rep.ob("[%s] options-follow-unicode-feature" % cfg, "unicode feature %s -> %s" % (unicode, gen),
               all(v == exp for v in gen.values()) and {"unicode", "utf8"} <= set(gen) and uni_util == unicode,
               "unicode/utf8 options do not follow the `unicode` feature in both crates", key="syntax-feature:%s" % cfg, file=pr.relfile(), line=pr.line)
        rep.ob("[%s] thompson-utf8-agrees" % cfg, "thompson %s" % nfa, nfa.get("utf8") == run_.get("utf8"),
               "the NFA utf8 option differs from the syntax utf8 option", key="thompson-utf8:%s" % cfg, file=mb.relfile(), line=mb.line, fn=mb.path)
        # (3) parse_literal
        pl = f.one(r"^lalrpop::lexer::re::parse_literal$")
        calls = [(bi, t) for bi, t in pl.calls() if callee_of(t) == pr.path]
        ok = len(calls) == 1 and all(d[0] == "call" and d[1] == "regex_syntax::escape" for d in origins(pl, calls[0][1]["args"][0])) if calls else False
        rep.ob("[%s] literal-is-escaped" % cfg, "parse_literal -> parse_regex(escape(s))", ok,
               "a quoted literal reaches the regex parser without regex_syntax::escape: metacharacters in \"...\" terminals are interpreted",
               key="literal-not-escaped", file=pl.relfile(), line=pl.line, fn=pl.path)
        esc = [t for _, t in pl.calls() if callee_of(t) == "regex_syntax::escape"]
        ok = len(esc) == 1 and all(d[0] == "arg" and d[1] == 1 and not d[2] for d in origins(pl, esc[0]["args"][0])) if esc else False
        rep.ob("[%s] escape-of-the-literal-itself" % cfg, "escape(s)", ok, "escape is applied to something other than the literal", key="escape-arg",
               file=pl.relfile(), line=pl.line)
        # (4) both users dispatch Quoted/Regex the same way
        for pat in (r"^lalrpop::normalize::token_check::construct$", r"^lalrpop::lexer::intern_token::compile(::\{closure#\d+\})?$"):
            bodies = f.find(pat)
            n = 0
            for b in bodies:
                for bi, t in b.calls():
                    c = callee_of(t)
                    if c not in (pl.path, pr.path):
                        continue
                    n += 1
                    want = "Quoted" if c == pl.path else "Regex"
                    names = set()
                    for d in origins(b, t["args"][0]):
                        names |= set(d[-1]) if d[0] in ("arg", "call", "undef") else set()
                    rep.ob("[%s] dispatch.%s" % (cfg, want), "%s: %s(<%s payload>)" % (b.path.split("::", 2)[-1], c.split("::")[-1], sorted(names & {"Quoted", "Regex"})),
                           want in names and not ({"Quoted", "Regex"} - {want}) & names,
                           "a %s terminal is parsed with %s" % (sorted(names & {"Quoted", "Regex"}), c.split("::")[-1]),
                           key="dispatch:%s:%s" % (b.path.split("::")[-1] if "closure" not in b.path else "compile", want), file=b.relfile(), line=t["ln"], fn=b.path)
            rep.floor("[%s] terminal parse calls in %s" % (cfg, pat[:50]), n, 2)
    # (2) Cargo features
    with open(core.REPO + "/lalrpop/Cargo.toml", "rb") as fh:
        lt = tomllib.load(fh)
    with open(core.REPO + "/lalrpop-util/Cargo.toml", "rb") as fh:
        ut = tomllib.load(fh)
    lu = set(lt.get("features", {}).get("unicode", []))
    uu = set(ut.get("features", {}).get("unicode", []))
    rep.ob("features.unicode-linked", "lalrpop unicode=%s; lalrpop-util unicode=%s" % (sorted(lu), sorted(uu)),
           {"regex-syntax/unicode", "lalrpop-util/unicode"} <= lu and any(x.startswith("regex-automata") and x.endswith("/unicode") for x in uu),
           "the unicode features of generator and runtime are not linked: the two regex engines can be compiled in different modes",
           key="features-unicode", file="lalrpop/Cargo.toml", line=0)
    dep = lt.get("dependencies", {}).get("lalrpop-util", {})
    rep.ob("features.util-default-off", "lalrpop -> lalrpop-util default-features=%s" % dep.get("default-features"), dep.get("default-features") is False,
           "lalrpop depends on lalrpop-util with default features (unicode would be on regardless of lalrpop's own feature)", key="features-util-default",
           file="lalrpop/Cargo.toml", line=0)
    # (5) emission quoting
    f = core.Facts(core.ensure_facts())
    T = f.tmpl
    fm = [m for m in T.macros if m["macro"] == "format" and m["file"].endswith("lexer/intern_token/mod.rs")]
    fmts = [m["fmt"] for m in fm]
    rep.ob("emission.display-then-debug-quote", "intern_token::compile format! sites %s" % fmts, "{regex}" in fmts and "{regex_str:?}" in fmts,
           "the pattern is not rendered with Display and then quoted with {:?} into the generated source", key="emission-quoting",
           file="lalrpop/src/lexer/intern_token/mod.rs", line=fm[0]["line"] if fm else 0)
    from . import dfaconfig
    dfaconfig.check(rep, f, "dfa-config", "valid tokens are then lexed from the wrong DFA state and rejected as InvalidToken on grammars with many terminals")
    return rep
