"""Effect classes by resolved callee, closed over the local call graph."""
import re

from . import core

BASE = [
    ("REMOVE", re.compile(r"^std::fs::(remove_file|remove_dir|remove_dir_all)$")),
    ("MKDIR", re.compile(r"^std::fs::(create_dir|create_dir_all)$|^std::fs::DirBuilder::create$")),
    ("CREATE", re.compile(r"^std::fs::File::(create|create_new|create_buffered)$|^std::fs::OpenOptions::open$|^std::fs::write$|^std::fs::copy$|^std::fs::hard_link$")),
    ("RENAME", re.compile(r"^std::fs::rename$")),
    ("READOPEN", re.compile(r"^std::fs::File::open$|^std::fs::read$|^std::fs::read_to_string$")),
    ("FSMETA", re.compile(r"^std::fs::(set_permissions|File::set_len|File::set_permissions|File::set_modified|File::set_times)$")),
    ("GEN", re.compile(r"^lalrpop::parser::parse_grammar$|^lalrpop::normalize::normalize$|^lalrpop::lr1::build_states$")),
]

WRITE_DECL = re.compile(r"^std::io::Write::(write|write_all|write_fmt|write_vectored|flush|write_all_vectored)$"
                        r"|^<&?std::fs::File as std::io::Write>::"
                        r"|^<std::io::(BufWriter|LineWriter)<W> as std::io::Write>::(write|write_all|write_fmt|write_vectored)$")


def direct_effects(t):
    """effects of one call terminator, by callee alone"""
    c = core.callee_of(t)
    if c is None:
        return set()
    out = set()
    for name, rx in BASE:
        if rx.search(c):
            out.add(name)
    args = core.callee_args(t)
    if WRITE_DECL.search(c):
        # io::Write on a File (resolved impl) or a provided method with Self = File / BufWriter<File>
        if "std::fs::File" in args or "std::fs::File" in c:
            out.add("WRITE")
    return out


class Effects:
    def __init__(self, facts):
        self.facts = facts
        self._sum = {}

    def summary(self, path, _stack=None):
        """effects reachable from local body `path` (transitively)"""
        if path in self._sum:
            return self._sum[path]
        b = self.facts.body(path)
        if b is None:
            return set()
        _stack = _stack or set()
        if path in _stack:
            return set()
        _stack = _stack | {path}
        out = set()
        for bi, t in b.calls():
            out |= direct_effects(t)
            c = core.callee_of(t)
            if c and self.facts.body(c) is not None:
                out |= self.summary(c, _stack)
            # a generic callee instantiated with File as writer may write the file
            a = core.callee_args(t)
            if c and self.facts.body(c) is not None and "std::fs::File" in a:
                out.add("WRITE")
        # closures defined here run (at most) when this body runs
        for cb in self.facts.closures_of(b):
            out |= self.summary(cb.path, _stack)
        self._sum[path] = out
        return out

    def of_call(self, t):
        out = set(direct_effects(t))
        c = core.callee_of(t)
        if c and self.facts.body(c) is not None:
            out |= self.summary(c)
            if "std::fs::File" in core.callee_args(t):
                out.add("WRITE")
        return out


MUTATING = {"REMOVE", "MKDIR", "CREATE", "RENAME", "WRITE", "FSMETA"}
