"""Core of the rule engine (E4): facts acquisition, MIR CFG utilities, value-flow slicing.

Nothing here executes lalrpop or a generated parser.  `ensure_facts` runs the two extractors
(E1 mirfacts = rustc driver under `cargo +nightly check`; E2 tmplfacts = syn walker) over the
*current working tree* of /repo and caches their output under /verif/.cache/<content-hash>/.
"""
import fcntl
import hashlib
import json
import os
import re
import shutil
import subprocess
import sys
import time

VERIF = os.path.dirname(os.path.dirname(os.path.abspath(__file__)))
REPO = os.environ.get("VERIF_REPO", "/repo")
CACHE = os.path.join(VERIF, ".cache")
MIRFACTS = os.path.join(VERIF, "engines/mirfacts/target/release/mirfacts")
TMPLFACTS = os.path.join(VERIF, "engines/tmplfacts/target/release/tmplfacts")

CONFIGS = {
    # name: (cargo args, crates)
    "default": ["-p", "lalrpop", "-p", "lalrpop-util"],
    # unicode feature off in both crates (lexer still on)
    "nounicode": ["-p", "lalrpop", "-p", "lalrpop-util", "--no-default-features",
                  "--features", "lalrpop/lexer,lalrpop/pico-args,lalrpop-util/lexer,lalrpop-util/std"],
}


class AnalysisError(Exception):
    """/repo cannot be analysed (does not build, extractor missing).  Exit code 2, no VIOLATION."""


def _source_files():
    out = subprocess.run(
        ["git", "-C", REPO, "ls-files", "-co", "--exclude-standard", "--",
         "lalrpop", "lalrpop-util", "Cargo.toml", "Cargo.lock"],
        capture_output=True, text=True, check=True).stdout.split("\n")
    files = []
    for f in out:
        if not f:
            continue
        if f.endswith((".rs", ".toml", ".lock", ".lalrpop")):
            p = os.path.join(REPO, f)
            if os.path.isfile(p):
                files.append(f)
    return sorted(set(files))


def repo_key():
    h = hashlib.sha256()
    for f in _source_files():
        h.update(f.encode())
        h.update(b"\0")
        with open(os.path.join(REPO, f), "rb") as fh:
            h.update(hashlib.sha256(fh.read()).digest())
    # the extractors are part of the key: rebuilding them invalidates cached facts
    for tool in (MIRFACTS, TMPLFACTS):
        try:
            st = os.stat(tool)
            h.update(("%s:%d:%d" % (tool, st.st_size, int(st.st_mtime))).encode())
        except FileNotFoundError:
            raise AnalysisError("extractor not built: %s (run MANIFEST.setup_cmd)" % tool)
    return h.hexdigest()[:24]


def _prune_cache(keep):
    try:
        ents = [e for e in os.listdir(CACHE) if re.fullmatch(r"[0-9a-f]{24}", e)]
    except FileNotFoundError:
        return
    ents.sort(key=lambda e: os.path.getmtime(os.path.join(CACHE, e)), reverse=True)
    for e in ents[6:]:
        if e != keep:
            shutil.rmtree(os.path.join(CACHE, e), ignore_errors=True)


def tmpl_source_files():
    res = []
    for f in _source_files():
        if not f.startswith("lalrpop/src/") or not f.endswith(".rs"):
            continue
        base = os.path.basename(f)
        if base in ("test.rs", "test_util.rs") or "/test/" in f or f.endswith("parser/lrgrammar.rs"):
            continue
        res.append(f)
    return res


def ensure_facts(config="default"):
    """Return the directory holding facts for the current /repo tree + config."""
    os.makedirs(CACHE, exist_ok=True)
    key = repo_key()
    d = os.path.join(CACHE, key, config)
    done = os.path.join(d, "DONE")
    if os.path.exists(done):
        return d
    lock = open(os.path.join(CACHE, "lock-" + config), "w")
    fcntl.flock(lock, fcntl.LOCK_EX)
    try:
        if os.path.exists(done):
            return d
        shutil.rmtree(d, ignore_errors=True)
        os.makedirs(d)
        t0 = time.time()
        # E2 (syntax) -- only once, config independent, but cheap: run per config
        files = tmpl_source_files()
        r = subprocess.run([TMPLFACTS] + files, cwd=REPO, capture_output=True, text=True)
        if r.returncode != 0:
            raise AnalysisError("tmplfacts failed: " + r.stderr[-2000:])
        with open(os.path.join(d, "tmpl.jsonl"), "w") as fh:
            fh.write(r.stdout)
        ufiles = [x for x in _source_files() if x.startswith("lalrpop-util/src/") and x.endswith(".rs")]
        r = subprocess.run([TMPLFACTS] + ufiles, cwd=REPO, capture_output=True, text=True)
        if r.returncode != 0:
            raise AnalysisError("tmplfacts (lalrpop-util) failed: " + r.stderr[-2000:])
        with open(os.path.join(d, "tmpl_util.jsonl"), "w") as fh:
            fh.write(r.stdout)
        # E1 (MIR)
        sysroot = subprocess.run(["rustc", "+nightly", "--print", "sysroot"],
                                 capture_output=True, text=True, check=True).stdout.strip()
        target = os.path.join(CACHE, "target-" + config)
        fp = os.path.join(target, "debug", ".fingerprint")
        if os.path.isdir(fp):
            for e in os.listdir(fp):
                if e.startswith("lalrpop"):
                    shutil.rmtree(os.path.join(fp, e), ignore_errors=True)
        env = dict(os.environ)
        env.update({
            "LD_LIBRARY_PATH": sysroot + "/lib",
            "RUSTFLAGS": "-Zmir-opt-level=0 -Awarnings",
            "RUSTC_WORKSPACE_WRAPPER": MIRFACTS,
            "MIRFACTS_OUT": d,
            "MIRFACTS_CRATES": "lalrpop,lalrpop_util",
            "CARGO_TARGET_DIR": target,
            "CARGO_NET_OFFLINE": "true",
            "CARGO_INCREMENTAL": "0",
        })
        env.pop("RUSTC_WRAPPER", None)
        cmd = ["cargo", "+nightly", "check", "--offline"] + CONFIGS[config]
        r = subprocess.run(cmd, cwd=REPO, env=env, capture_output=True, text=True)
        if r.returncode != 0:
            shutil.rmtree(d, ignore_errors=True)
            raise AnalysisError("cargo check (mirfacts, %s) failed:\n%s" % (config, r.stderr[-4000:]))
        for need in ("lalrpop-lib.jsonl", "lalrpop_util-lib.jsonl"):
            if not os.path.exists(os.path.join(d, need)):
                shutil.rmtree(d, ignore_errors=True)
                raise AnalysisError("mirfacts produced no %s (driver skipped?)" % need)
        with open(done, "w") as fh:
            fh.write(json.dumps({"wall_s": time.time() - t0, "cmd": " ".join(cmd)}))
        _prune_cache(key)
        return d
    finally:
        fcntl.flock(lock, fcntl.LOCK_UN)
        lock.close()


# ----------------------------------------------------------------------------------------------
# MIR facts model


def place_key(p):
    return (p["l"], json.dumps(p["pr"]))


class Body:
    def __init__(self, rec):
        self.rec = rec
        self.path = rec["path"]
        self.file = rec["file"]
        self.line = rec["line"]
        self.end_line = rec["end_line"]
        self.blocks = rec["blocks"]
        self.locals = rec["locals"]
        self.argc = rec["argc"]
        self.kind = rec["kind"]
        self._succ = None
        self._pred = None
        self._idom = None
        self._ipdom = None
        self._defs = None

    def relfile(self):
        f = self.file
        if f.startswith(REPO + "/"):
            f = f[len(REPO) + 1:]
        return f

    # ---- CFG
    def term(self, b):
        return self.blocks[b]["t"]

    def succs(self, b, unwind=False):
        t = self.blocks[b]["t"]
        k = t["k"]
        out = []
        if k == "goto":
            out = [t["t"]]
        elif k == "switch":
            out = [x[1] for x in t["targets"]] + [t["otherwise"]]
        elif k in ("call", "drop", "assert"):
            if t.get("t") is not None:
                out = [t["t"]]
            if unwind and t.get("unwind") is not None:
                out.append(t["unwind"])
        return out

    def _const_switch_target(self, b):
        """target of a switch whose operand is assigned a constant in the same block (e.g. the
        `if DEBUG_ENABLED` of a debug! macro); None when not constant"""
        t = self.blocks[b]["t"]
        if t["k"] != "switch":
            return None
        l = op_local(t["o"])
        if l is None:
            return None
        val = None
        for s in self.blocks[b]["s"]:
            if s["k"] == "assign" and s["p"]["l"] == l:
                val = None
                if not s["p"]["pr"] and s["r"]["k"] == "use":
                    val = const_int(s["r"]["o"])
        if val is None:
            return None
        for v, x in t["targets"]:
            if v == val:
                return x
        return t["otherwise"]

    @property
    def succ(self):
        """successors with statically constant switches pruned"""
        if self._succ is None:
            out = []
            for b in range(len(self.blocks)):
                ct = self._const_switch_target(b)
                out.append([ct] if ct is not None else self.succs(b))
            self._succ = out
        return self._succ

    def back_edges(self):
        return [(u, h) for u in range(len(self.blocks)) for h in self.succ[u] if self.dominates(h, u)]

    def loop_body(self, h):
        """blocks of the natural loop(s) with header h"""
        body = {h}
        st = [u for u, hh in self.back_edges() if hh == h]
        while st:
            b = st.pop()
            if b in body:
                continue
            body.add(b)
            st.extend(self.pred[b])
        return body

    @property
    def pred(self):
        if self._pred is None:
            p = [[] for _ in self.blocks]
            for b, ss in enumerate(self.succ):
                for s in ss:
                    p[s].append(b)
            self._pred = p
        return self._pred

    def reachable(self, starts=(0,), removed_edges=(), removed_blocks=()):
        removed_edges = set(removed_edges)
        removed_blocks = set(removed_blocks)
        seen = set()
        st = [s for s in starts if s not in removed_blocks]
        while st:
            b = st.pop()
            if b in seen:
                continue
            seen.add(b)
            for s in self.succ[b]:
                if (b, s) in removed_edges or s in removed_blocks:
                    continue
                if s not in seen:
                    st.append(s)
        return seen

    def reaches(self, targets, removed_edges=(), removed_blocks=()):
        """set of blocks from which some block in `targets` is reachable (incl. targets)"""
        removed_edges = set(removed_edges)
        removed_blocks = set(removed_blocks)
        seen = set()
        st = [t for t in targets if t not in removed_blocks]
        while st:
            b = st.pop()
            if b in seen:
                continue
            seen.add(b)
            for p in self.pred[b]:
                if (p, b) in removed_edges or p in removed_blocks:
                    continue
                if p not in seen:
                    st.append(p)
        return seen

    def _dom(self, succ, pred, roots):
        n = len(self.blocks)
        # iterative dominators over sets (bodies are small)
        reach = set()
        st = list(roots)
        while st:
            b = st.pop()
            if b in reach:
                continue
            reach.add(b)
            st.extend(succ[b])
        full = set(reach)
        dom = {b: set(full) for b in reach}
        for r in roots:
            dom[r] = {r}
        changed = True
        order = sorted(reach)
        while changed:
            changed = False
            for b in order:
                if b in roots:
                    continue
                ps = [p for p in pred[b] if p in reach]
                if not ps:
                    new = {b}
                else:
                    new = set.intersection(*[dom[p] for p in ps]) | {b}
                if new != dom[b]:
                    dom[b] = new
                    changed = True
        return dom

    @property
    def dom(self):
        if self._idom is None:
            self._idom = self._dom(self.succ, self.pred, [0])
        return self._idom

    @property
    def pdom(self):
        """post-dominators w.r.t. normal exits (return blocks); unwinding ignored"""
        if self._ipdom is None:
            exits = [b for b in range(len(self.blocks)) if self.blocks[b]["t"]["k"] == "return"]
            self._ipdom = self._dom(self.pred, self.succ, exits)
        return self._ipdom

    def dominates(self, a, b):
        return b in self.dom and a in self.dom[b]

    def postdominates(self, a, b):
        return b in self.pdom and a in self.pdom[b]

    # ---- instruction iteration
    def stmts(self, cleanup=False):
        """statements of normal-path blocks (unwind/cleanup blocks only when asked)"""
        for bi, bl in enumerate(self.blocks):
            if bl["cleanup"] and not cleanup:
                continue
            for si, s in enumerate(bl["s"]):
                yield bi, si, s

    def calls(self, cleanup=False):
        for bi, bl in enumerate(self.blocks):
            if bl["cleanup"] and not cleanup:
                continue
            t = bl["t"]
            if t["k"] == "call":
                yield bi, t

    def return_blocks(self):
        return [b for b in range(len(self.blocks)) if self.blocks[b]["t"]["k"] == "return"]

    # ---- definitions of locals
    @property
    def defs(self):
        """local -> list of (block, stmt_index|'t', kind, payload) for whole-local definitions"""
        if self._defs is None:
            d = {}
            pd = {}
            for bi, si, s in self.stmts():
                if s["k"] == "assign":
                    if not s["p"]["pr"]:
                        d.setdefault(s["p"]["l"], []).append((bi, si, s))
                    elif not any(e[0] == "deref" for e in s["p"]["pr"]):
                        # `_x.f = v`: a partial definition of the local itself
                        pd.setdefault(s["p"]["l"], []).append((bi, si, s))
            self._pdefs = pd
            for bi, t in self.calls():
                d.setdefault(t["dest"]["l"], []).append((bi, "t", t))
            self._defs = d
        return self._defs

    @property
    def mut_users(self):
        """local -> [(block, call terminator)] of calls that receive `&mut local` (or `&mut local.f`)"""
        if getattr(self, "_mut_users", None) is None:
            refs = {}
            for bi, si, s in self.stmts():
                if s["k"] == "assign" and s["r"]["k"] == "ref" and s["r"].get("mut") and not s["p"]["pr"]:
                    if not any(e[0] == "deref" for e in s["r"]["p"]["pr"]):
                        refs.setdefault(s["p"]["l"], set()).add(s["r"]["p"]["l"])
                    else:
                        # reborrow `&mut *_x`: alias of what _x points to
                        refs.setdefault(s["p"]["l"], set()).update(refs.get(s["r"]["p"]["l"], set()))
            mu = {}
            for bi, t in self.calls():
                for a in t["args"]:
                    l = op_local(a)
                    if l is not None and l in refs:
                        for tgt in refs[l]:
                            mu.setdefault(tgt, []).append((bi, t))
            self._mut_users = mu
        return self._mut_users

    @property
    def pdefs(self):
        """local -> partial stores `_l.f = v` (no deref in the place)"""
        self.defs
        return self._pdefs

    def local_name(self, l):
        return self.locals[l].get("name")

    def local_ty(self, l):
        return self.locals[l]["ty"]

    def named_local(self, name):
        return [i for i, l in enumerate(self.locals) if l.get("name") == name]


def callee_of(t):
    """resolved callee path of a call terminator (impl method when resolvable, else the decl)"""
    f = t["f"]
    if f["k"] != "const":
        return None
    v = f["v"]
    if "fn" not in v:
        return None
    return v["res"] or v["fn"]


def callee_decl(t):
    f = t["f"]
    if f["k"] != "const" or "fn" not in f["v"]:
        return None
    return f["v"]["fn"]


def callee_args(t):
    f = t["f"]
    if f["k"] != "const" or "fn" not in f["v"]:
        return ""
    return f["v"]["args"]


def op_local(op):
    """local if operand is copy/move of a bare local"""
    if op["k"] in ("copy", "move") and not op["p"]["pr"]:
        return op["p"]["l"]
    return None


def op_place(op):
    if op["k"] in ("copy", "move"):
        return op["p"]
    return None


def const_val(op):
    if op["k"] != "const":
        return None
    return op["v"]


def const_int(op):
    v = const_val(op)
    if v is None:
        return None
    if "int" in v:
        return v["int"]
    if "bool" in v:
        return 1 if v["bool"] else 0
    return None


def const_str(op):
    v = const_val(op)
    if v and "str" in v:
        return v["str"]
    return None


def fields_of(place):
    return [e for e in place["pr"] if e[0] == "field"]


def strip_generics(path):
    """drop <...> generic argument groups from a path string (keeps `<T as Trait>` heads)"""
    out = []
    depth = 0
    i = 0
    while i < len(path):
        c = path[i]
        if c == "<":
            # keep leading qualified-self form
            if i == 0 or path[i - 1] in ":(, ":
                if depth == 0 and (i == 0):
                    out.append(c)
                    i += 1
                    continue
            depth += 1
        elif c == ">":
            if depth > 0:
                depth -= 1
                i += 1
                continue
        if depth == 0:
            out.append(c)
        i += 1
    return "".join(out)


class Facts:
    def __init__(self, d):
        self.dir = d
        self.bodies = {}
        self.adts = {}
        self.items = {}
        self.impls = []
        self.crates = {}
        self.nbodies = {}
        for fn in sorted(os.listdir(d)):
            if not fn.endswith(".jsonl") or fn.startswith("tmpl"):
                continue
            with open(os.path.join(d, fn)) as fh:
                unit = fn[:-6]
                for line in fh:
                    r = json.loads(line)
                    k = r["rec"]
                    if k == "body":
                        r["unit"] = unit
                        # the bin and lib of lalrpop share a crate name; main.rs bodies get a prefix
                        key = r["path"] if unit != "lalrpop-bin" else "bin:" + r["path"]
                        self.bodies[key] = Body(r)
                        self.bodies[key].unit = unit
                    elif k == "adt":
                        self.adts[r["path"]] = r
                    elif k == "item":
                        r["unit"] = unit
                        self.items[(unit, r["path"])] = r
                    elif k == "impl":
                        r["unit"] = unit
                        self.impls.append(r)
                    elif k == "crate":
                        self.crates[unit] = r
                    elif k == "end":
                        self.nbodies[unit] = r["bodies"]
        for need in ("lalrpop-lib", "lalrpop_util-lib"):
            if need not in self.nbodies:
                raise AnalysisError("facts for %s incomplete" % need)
        self._callers = None
        self.tmpl = Tmpl(os.path.join(d, "tmpl.jsonl"))
        self.tmpl_util = Tmpl(os.path.join(d, "tmpl_util.jsonl"))

    def body(self, path):
        return self.bodies.get(path)

    def find(self, pattern, unit=None):
        rx = re.compile(pattern)
        return [b for p, b in self.bodies.items() if rx.search(p) and (unit is None or b.unit == unit)]

    def one(self, pattern, unit=None):
        r = self.find(pattern, unit)
        if len(r) != 1:
            raise AnchorMissing("expected exactly one body matching %r, found %d: %s" % (
                pattern, len(r), [b.path for b in r][:6]))
        return r[0]

    def promoted_of(self, body):
        pre = body.path + "::{promoted#"
        return [b for p, b in self.bodies.items() if b.path.startswith(pre) and b.unit == body.unit]

    def const_refs(self, body):
        """paths of const/static items referenced by a body (looking through its promoteds)"""
        out = set()
        for b in [body] + self.promoted_of(body):
            for bi, si, s in b.stmts():
                if s["k"] == "assign":
                    for o in rvalue_operands(s["r"]):
                        v = const_val(o)
                        if v:
                            for k in ("unevaluated", "static"):
                                if k in v:
                                    out.add(v[k])
            for bi, t in b.calls():
                for a in t["args"]:
                    v = const_val(a)
                    if v:
                        for k in ("unevaluated", "static"):
                            if k in v:
                                out.add(v[k])
        return out

    def closures_of(self, body):
        pre = body.path + "::{closure#"
        return [b for p, b in self.bodies.items() if b.path.startswith(pre) and b.unit == body.unit]

    def callgraph(self):
        if self._callers is None:
            cg = {}
            for p, b in self.bodies.items():
                s = set()
                for bi, t in b.calls():
                    c = callee_of(t)
                    if c:
                        s.add(c)
                    # fn items / closures passed as values
                    for a in t["args"]:
                        v = const_val(a)
                        if v and "fn" in v:
                            s.add(v["res"] or v["fn"])
                for bi, si, st in b.stmts():
                    if st["k"] == "assign":
                        r = st["r"]
                        if r["k"] == "agg" and r.get("ak") == "closure":
                            s.add(r["closure"])
                        for o in rvalue_operands(r):
                            v = const_val(o)
                            if v and "fn" in v:
                                s.add(v["res"] or v["fn"])
                            if v and "closure" in v:
                                s.add(v["closure"])
                cg[p] = s
            self._callers = cg
        return self._callers

    def reach_calls(self, start_path, unit_prefix=None):
        """transitive set of callee paths reachable from a body (through local bodies)"""
        cg = self.callgraph()
        seen = set()
        st = [start_path]
        while st:
            p = st.pop()
            if p in seen:
                continue
            seen.add(p)
            for c in cg.get(p, ()):
                if c not in seen:
                    st.append(c)
        return seen


def rvalue_operands(r):
    k = r["k"]
    if k in ("use", "repeat", "unop", "cast"):
        return [r["o"]]
    if k == "binop":
        return [r["a"], r["b"]]
    if k == "agg":
        return r["ops"]
    return []


class AnchorMissing(Exception):
    pass


# ----------------------------------------------------------------------------------------------
# Template facts (E2)


class Tmpl:
    def __init__(self, path):
        self.macros = []
        self.lits = []
        self.fns = []
        self.lets = []
        self.other = []
        self.unparsed = []
        self.unsafe = []
        self.statics = []
        self.files = 0
        with open(path) as fh:
            for line in fh:
                r = json.loads(line)
                k = r["rec"]
                if k == "macro":
                    self.macros.append(r)
                elif k == "lit":
                    self.lits.append(r)
                elif k == "fn":
                    self.fns.append(r)
                elif k == "let":
                    self.lets.append(r)
                elif k == "othermacro":
                    self.other.append(r)
                elif k == "macro_unparsed":
                    self.unparsed.append(r)
                elif k == "unsafe":
                    self.unsafe.append(r)
                elif k == "static":
                    self.statics.append(r)
                elif k == "end":
                    self.files = r["files"]
        if not self.files:
            raise AnalysisError("template facts incomplete")

    def in_fn(self, file_suffix, fn_regex, macro=None):
        rx = re.compile(fn_regex)
        return [m for m in self.macros
                if m["file"].endswith(file_suffix) and rx.search(m["fn"])
                and (macro is None or m["macro"] == macro)]

    def rust_in_file(self, file_suffix):
        return [m for m in self.macros if m["file"].endswith(file_suffix) and m["macro"] == "rust"]


# ----------------------------------------------------------------------------------------------
# Value-flow slicing over one body

TRANSPARENT_SUFFIXES = (
    "::deref", "::deref_mut", "::as_ref", "::as_mut", "::borrow", "::borrow_mut",
    "::clone", "::into", "::from", "::to_owned", "::as_str", "::as_path", "::as_slice",
    "::into_iter", "::to_path_buf", "::to_string",
)


def is_transparent(callee):
    if callee is None:
        return False
    c = callee
    return c.endswith(TRANSPARENT_SUFFIXES) or c.endswith("::Try>::branch") or c.endswith("::branch")


def _agg_field(r, name):
    """operand index of an aggregate selected by a projection name (tuple index or field name)"""
    if r.get("ak") == "tuple" and name.isdigit() and int(name) < len(r["ops"]):
        return int(name)
    if r.get("ak") == "adt":
        fs = r.get("fields", [])
        if name in fs and fs.index(name) < len(r["ops"]):
            return fs.index(name)
    return None


def _names(p):
    return tuple(e[2] if e[0] == "field" else e[1] for e in p["pr"] if e[0] in ("field", "downcast"))


FMT_PLUMBING = (
    "std::fmt::Arguments::<'a>::new", "std::fmt::Arguments::<'a>::new_const",
    "std::fmt::Arguments::<'a>::from_str", "std::fmt::Arguments::<'a>::new_v1",
    "core::fmt::rt::Argument::<'_>::new_display", "core::fmt::rt::Argument::<'_>::new_debug",
    "core::fmt::rt::Argument::<'_>::new_lower_hex",
)


def transparent_args(callee):
    """which argument positions a call's result is an image of (None = opaque call)"""
    if callee is None:
        return None
    if is_transparent(callee):
        return [0]
    if callee.startswith("std::fmt::Arguments::<'a>::new") or callee.startswith("core::fmt::rt::Argument::<'_>::new_"):
        return "all"
    if re.match(r"^std::io::(BufWriter|LineWriter)::<W>::(new|with_capacity)$", callee):
        return [len(callee) and (1 if callee.endswith("with_capacity") else 0)]   # the wrapped writer
    return None


def origins(body, op_or_local, transparent=transparent_args, max_steps=6000, through_agg=False,
            facts=None, record_calls=False, through_mut=False, follow_discr=False):
    """Backward slice: set of source descriptors a value may come from.

    descriptors:
      ('arg', n, names)               function parameter local n (1..argc)
      ('call', callee, block, names)  result of a non-transparent call
      ('const', json)                 constant (promoted constants are looked through when
                                      `facts` is given)
      ('agg', block, stmt, names)     aggregate construction (unless through_agg)
      ('other', block, stmt, names)   anything else (binop, discriminant, ...)
      ('undef', local, names)         local without definition (e.g. only partially assigned)
    `names` = field / variant names projected since the source (outermost last).
    Projections are followed on their base local (coarse but sound for "may come from").
    """
    res = set()
    seen = set()
    work = []

    def push_const(v):
        if facts is not None and "promoted" in v:
            pb = facts.body("%s::{promoted#%d}" % (v["of"], v["promoted"]))
            if pb is not None:
                for o in origins(pb, 0, transparent, max_steps, True, facts):
                    res.add(o)
                return
        res.add(("const", json.dumps(v, sort_keys=True)))

    def push_op(op, names=()):
        if op["k"] == "const":
            push_const(op["v"])
        elif op["k"] in ("copy", "move"):
            work.append((op["p"]["l"], _names(op["p"]) + names))

    if isinstance(op_or_local, int):
        work.append((op_or_local, ()))
    elif "k" in op_or_local:
        push_op(op_or_local)
    else:
        work.append((op_or_local["l"], _names(op_or_local)))
    steps = 0
    while work:
        steps += 1
        if steps > max_steps:
            res.add(("other", -1, -1, ()))
            break
        l, names = work.pop()
        if (l, names) in seen:
            continue
        seen.add((l, names))
        ds = body.defs.get(l, [])
        if 1 <= l <= body.argc:
            res.add(("arg", l, names))
        pds = body.pdefs.get(l, [])
        for bi, si, d in pds:
            fn = _names(d["p"])
            # reading field path `names` (outermost last): the innermost projection comes first
            if not names or not fn or names[0] == fn[0]:
                rest = names[len(fn):] if names[:len(fn)] == fn else ()
                r = d["r"]
                if r["k"] in ("use", "cast", "repeat"):
                    push_op(r["o"], rest)
                elif r["k"] in ("ref", "copyforderef", "rawptr"):
                    work.append((r["p"]["l"], _names(r["p"]) + rest))
                else:
                    res.add(("other", bi, si, rest))
        if through_mut:
            # calls that receive `&mut l` may write it: they contribute their other arguments
            for mbi, mt in body.mut_users.get(l, []):
                res.add(("call", callee_of(mt) or "?", mbi, ("&mut",)))
                for a in mt["args"]:
                    if a["k"] == "const":
                        push_op(a)
                    elif (a["p"]["l"], ()) not in seen:
                        work.append((a["p"]["l"], ()))
        if not ds:
            if not (1 <= l <= body.argc) and not pds:
                res.add(("undef", l, names))
            continue
        for bi, si, d in ds:
            if si == "t":
                c = callee_of(d)
                ta = transparent(c)
                if ta and d["args"]:
                    idxs = range(len(d["args"])) if ta == "all" else ta
                    for i in idxs:
                        if i < len(d["args"]):
                            push_op(d["args"][i], names)
                    if record_calls:
                        res.add(("call", c or "?", bi, names))
                    if c is None:
                        push_op(d["f"], names)
                else:
                    res.add(("call", c or "?", bi, names))
                continue
            r = d["r"]
            k = r["k"]
            if k in ("use", "cast", "repeat"):
                push_op(r["o"], names)
            elif k in ("ref", "copyforderef", "rawptr"):
                work.append((r["p"]["l"], _names(r["p"]) + names))
            elif k == "discr" and follow_discr:
                work.append((r["p"]["l"], _names(r["p"]) + ("<discr>",) + names))
            elif k == "agg" and names and _agg_field(r, names[0]) is not None:
                # field-sensitive: `(a, b).0` comes from `a`
                push_op(r["ops"][_agg_field(r, names[0])], names[1:])
            elif k == "agg":
                if through_agg:
                    for o in r["ops"]:
                        push_op(o, names)
                    if not r["ops"]:
                        res.add(("agg", bi, si, names))
                else:
                    res.add(("agg", bi, si, names))
            else:
                res.add(("other", bi, si, names))
    return res


def slice_locals(body, start_ops, transparent=is_transparent):
    """set of locals in the backward slice (base locals only)"""
    seen = set()
    work = []
    for o in start_ops:
        if isinstance(o, int):
            work.append(o)
        elif o.get("k") in ("copy", "move"):
            work.append(o["p"]["l"])
    while work:
        l = work.pop()
        if l in seen:
            continue
        seen.add(l)
        for bi, si, d in body.defs.get(l, []):
            if si == "t":
                if transparent(callee_of(d)) and d["args"]:
                    a0 = d["args"][0]
                    if a0["k"] != "const":
                        work.append(a0["p"]["l"])
                continue
            r = d["r"]
            if r["k"] in ("use", "cast") and r["o"]["k"] != "const":
                work.append(r["o"]["p"]["l"])
            elif r["k"] in ("ref", "copyforderef", "rawptr"):
                work.append(r["p"]["l"])
    return seen


def forward_locals(body, start_locals, transparent=is_transparent, through_agg=False):
    """forward closure: locals that (may) hold a copy/move/ref/transparent image of a start local"""
    seen = set(start_locals)
    changed = True
    while changed:
        changed = False
        for bi, si, s in body.stmts():
            if s["k"] != "assign":
                continue
            r = s["r"]
            src = None
            if r["k"] in ("use", "cast") and r["o"]["k"] != "const":
                src = r["o"]["p"]["l"]
            elif r["k"] in ("ref", "copyforderef", "rawptr"):
                src = r["p"]["l"]
            elif through_agg and r["k"] == "agg":
                for o in r["ops"]:
                    if o["k"] != "const" and o["p"]["l"] in seen:
                        src = o["p"]["l"]
            if src is not None and src in seen and s["p"]["l"] not in seen:
                seen.add(s["p"]["l"])
                changed = True
        for bi, t in body.calls():
            if transparent(callee_of(t)) and t["args"]:
                a0 = t["args"][0]
                if a0["k"] != "const" and a0["p"]["l"] in seen and t["dest"]["l"] not in seen:
                    seen.add(t["dest"]["l"])
                    changed = True
    return seen


def split_generic_args(a):
    """'[A<B, C>, D]' -> ['A<B, C>', 'D'] (top-level split)"""
    a = a.strip()
    if a.startswith("[") and a.endswith("]"):
        a = a[1:-1]
    out, depth, cur = [], 0, ""
    a = a.replace("->", "\u2192")
    for ch in a:
        if ch in "<([{":
            depth += 1
        elif ch in ">)]}":
            depth -= 1
        if ch == "," and depth == 0:
            out.append(cur.strip())
            cur = ""
        else:
            cur += ch
    if cur.strip():
        out.append(cur.strip())
    return [x.replace("\u2192", "->") for x in out]


def operand_locals(op):
    if op["k"] in ("copy", "move"):
        ls = [op["p"]["l"]]
        for e in op["p"]["pr"]:
            if e[0] == "index":
                ls.append(e[1])
        return ls
    return []


def taint(body, seeds):
    """Forward may-taint over base locals (field insensitive, flow insensitive).
    Returns (tainted_locals, sinks, escapes) where sinks = [(block, callee, arg_index)] are calls
    receiving a tainted argument and escapes is True when the return place becomes tainted."""
    t = set(seeds)
    changed = True
    while changed:
        changed = False
        for bi, si, s in body.stmts():
            if s["k"] != "assign":
                continue
            r = s["r"]
            srcs = []
            if r["k"] in ("ref", "copyforderef", "rawptr", "discr"):
                srcs = [r["p"]["l"]]
            else:
                for o in rvalue_operands(r):
                    srcs += operand_locals(o)
            if any(x in t for x in srcs) and s["p"]["l"] not in t:
                t.add(s["p"]["l"])
                changed = True
        for bi, tm in body.calls():
            if any(l in t for a in tm["args"] for l in operand_locals(a)):
                if tm["dest"]["l"] not in t:
                    t.add(tm["dest"]["l"])
                    changed = True
                # &mut arguments may receive the taint
                for a in tm["args"]:
                    for l in operand_locals(a):
                        if l not in t and "&mut" in body.local_ty(l)[:5]:
                            t.add(l)
                            changed = True
    sinks = []
    for bi, tm in body.calls():
        for i, a in enumerate(tm["args"]):
            if any(l in t for l in operand_locals(a)):
                sinks.append((bi, callee_of(tm), i))
    return t, sinks, 0 in t
