"""C03 -- a grammar is accepted exactly when it is deterministic (clause: conflicts are computed and block output)."""
import re

from . import core
from .core import callee_of, callee_decl, origins
from .report import Report

LEVEL = "other"
EXPLANATION = (
    "Every function of lalrpop::lr1 that returns the table-construction Result is classified from its MIR: a "
    "*forwarder* only passes on (or transforms the Ok payload of) another such function's result; a *producer* "
    "builds Ok(states) from scratch. Every producer (canonical LR / LR(0) builder, LALR collapse, lane-table "
    "construction) must (i) reach Lookahead::conflicts in its call graph, (ii) also construct the Err variant, and "
    "(iii) contain a branch on conflict evidence (a value derived from Lookahead::conflicts or from the Result of a "
    "callee that reaches it) one side of which cannot reach the Ok construction. In build::emit_recursive_ascent "
    "every call into lr1::codegen::*::compile is dominated by the Ok arm of the build_states result and the Err arm "
    "reaches no code generation. The 'iff' (soundness/completeness of the conflict computation and of lane-table "
    "resolution) is NOT decided.")

CONFLICT_FN = re.compile(r"lookahead::Lookahead::conflicts$|as lalrpop::lr1::lookahead::Lookahead>::conflicts$")


def is_lrresult(ty):
    return ty.startswith("std::result::Result<std::vec::Vec<lalrpop::lr1::core::State<") and "TableConstructionError" in ty


def deep(c):
    return "all" if c else None


def call_targets(b, bi):
    """callee paths of the call terminating block bi (fn-pointer calls: every fn item that may flow into the pointer)"""
    t = b.blocks[bi]["t"]
    c = callee_of(t)
    if c is not None:
        return [c]
    import json
    out = []
    for x in origins(b, t["f"], through_agg=True):
        if x[0] == "const" and '"fn"' in x[1]:
            v = json.loads(x[1])
            out.append(v.get("res") or v.get("fn"))
    return out or ["?"]


def run(tier):
    rep = Report("C03", LEVEL, tier)
    rep.explanation = EXPLANATION
    rep.not_decided = "that conflicts() finds every conflict, that lane-table resolution never reports a conflict for an LR(1) grammar, LALR criterion exactness"
    rep.trusted = ["rustc MIR and callee resolution"]
    f = core.Facts(core.ensure_facts())
    lr = {p: b for p, b in f.bodies.items() if b.unit == "lalrpop-lib" and b.kind in ("fn", "assoc") and p.startswith("lalrpop::lr1::")
          and is_lrresult(b.local_ty(0))}
    rep.floor("functions returning the table-construction Result", len(lr), 8)
    cg = f.callgraph()
    conflict_fns = {p for p in f.bodies if CONFLICT_FN.search(p)} | {"lalrpop::lr1::lookahead::Lookahead::conflicts"}

    def reaches_conflicts(path):
        r = f.reach_calls(path)
        return any(CONFLICT_FN.search(x) for x in r)

    producers = []
    for p, b in sorted(lr.items()):
        rel = b.relfile()
        oks, errs, others = [], [], []
        for bi, si, d in b.defs.get(0, []):
            if b.blocks[bi]["cleanup"]:
                continue
            if si == "t":
                others.append((bi, call_targets(b, bi)))
            elif d["r"]["k"] == "agg" and d["r"].get("variant") == "Ok":
                oks.append((bi, si, d))
            elif d["r"]["k"] == "agg" and d["r"].get("variant") == "Err":
                errs.append((bi, si, d))
            else:
                o = origins(b, d["r"]["o"]) if d["r"]["k"] == "use" else set()
                cs = []
                for x in o:
                    if x[0] == "call":
                        cs += call_targets(b, x[2])
                others.append((bi, cs))
        own = []
        for bi, si, d in oks:
            prov = origins(b, d["r"]["ops"][0], transparent=deep, through_agg=True, record_calls=True, through_mut=True)
            from_lr = [x for x in prov if x[0] == "call" and x[1] in lr]
            if any("Err" in x[3] for x in from_lr):
                from_lr = []      # it also recycles the states of a failed construction: it decides success itself
            # indirect calls through a function pointer: the pointees must all be construction functions
            fnptrs = [__import__("json").loads(x[1]) for x in prov if x[0] == "const" and '"fn"' in x[1]]
            if any((v.get("res") or v.get("fn")) in lr for v in fnptrs):
                from_lr.append(("fnptr",))
            if not from_lr:
                own.append((bi, si, d))
        short = p.replace("lalrpop::lr1::", "")
        if not own:
            # forwarder: everything returned comes from another LrResult function
            ok = True
            for bi, c in others:
                cs = [c] if isinstance(c, str) else c
                ok = ok and bool(cs) and all(x in lr or (x or "").endswith("from_residual") for x in cs)
            rep.ob("forwarder.passes-on-a-checked-result", short, ok and (bool(oks) or bool(others)),
                   "this function returns a table-construction Result that neither comes from another construction function nor from its own conflict check",
                   key="forwarder:%s" % short, file=rel, line=b.line, fn=p)
            continue
        producers.append(p)
        rep.ob("producer.reaches-conflict-detection", short, reaches_conflicts(p),
               "this construction builds Ok(states) itself but nothing it calls reaches Lookahead::conflicts: a non-deterministic grammar would be accepted",
               key="producer:no-conflicts:%s" % short, file=rel, line=b.line, fn=p)
        rep.ob("producer.can-fail", short, bool(errs),
               "this construction never returns Err", key="producer:no-err:%s" % short, file=rel, line=b.line, fn=p)
        # (iii) a branch on conflict evidence that can block Ok
        ok_blocks = {bi for bi, si, d in own}
        evid_switch = []
        for sb, bl in enumerate(b.blocks):
            t = bl["t"]
            if t["k"] != "switch" or bl["cleanup"]:
                continue
            prov = origins(b, t["o"], transparent=deep, through_agg=True, record_calls=True, through_mut=True, follow_discr=True)
            ev = False
            for x in prov:
                if x[0] == "call" and (CONFLICT_FN.search(x[1] or "") or (f.body(x[1]) is not None and reaches_conflicts(x[1]) and x[1] != p)):
                    ev = True
                if x[0] == "const" and "conflicts" in x[1] and '"fn"' in x[1]:
                    ev = True
            if not ev:
                # fn item `conflicts` passed to an iterator adaptor feeding this value
                for l in core.slice_locals(b, [t["o"]], transparent=lambda c: True):
                    for dbi, dsi, dd in b.defs.get(l, []):
                        if dsi == "t":
                            for a in dd["args"]:
                                v = core.const_val(a)
                                if v and "fn" in v and CONFLICT_FN.search(v["res"] or v["fn"]):
                                    ev = True
            if not ev:
                continue
            # the test must be an emptiness / variant test, not a comparison with an arbitrary threshold
            thresh = False
            for x in origins(b, t["o"]):
                if x[0] == "other" and x[1] >= 0:
                    r = b.blocks[x[1]]["s"][x[2]]["r"]
                    if r["k"] == "binop" and r["op"] in ("Gt", "Ge", "Lt", "Le", "Eq", "Ne"):
                        cs = [core.const_int(r["a"]), core.const_int(r["b"])]
                        if any(c is not None and c not in (0, 1) for c in cs):
                            thresh = True
            if thresh:
                continue
            succs = {x for x in b.succ[sb] if b.blocks[x]["t"]["k"] != "unreachable"}
            can = [s for s in succs if b.reachable([s]) & ok_blocks]
            cannot = [s for s in succs if not (b.reachable([s]) & ok_blocks)]
            if can and cannot:
                evid_switch.append(sb)
        rep.ob("producer.conflicts-block-success", "%s (blocking branches at %s)" % (short, ["bb%d" % x for x in evid_switch]), bool(evid_switch),
               "no branch on conflict evidence separates the Ok(states) construction from the failure path: the result of conflict detection does not decide acceptance",
               key="producer:not-gated:%s" % short, file=rel, line=b.line, fn=p)
    rep.analysed["producers"] = [p.replace("lalrpop::lr1::", "") for p in producers]
    rep.floor("producers of Ok(states)", len(producers), 3)

    # ---- construction coverage (shared with C01): the work list visits states appended during resolution, the LALR
    #      collapse merges every canonical state (unresolved / unmerged states carry wrong lookahead => spurious
    #      acceptance or spurious conflicts)
    from .c01 import construction_coverage
    construction_coverage(rep, f)

    # ---- (b) emit_recursive_ascent
    era = f.one(r"^lalrpop::build::emit_recursive_ascent$")
    rel = era.relfile()
    bs = [(bi, t) for bi, t in era.calls() if (callee_of(t) or "") == "lalrpop::lr1::build_states"]
    comps = [(bi, t) for bi, t in era.calls() if re.search(r"^lalrpop::lr1::codegen::\w+::compile$", callee_of(t) or "")]
    rep.floor("calls of lr1::build_states in emit_recursive_ascent", len(bs), 1)
    rep.floor("calls into lr1::codegen::*::compile", len(comps), 3)
    if bs:
        bbi, bt = bs[0]
        dest = bt["dest"]["l"]
        imgs = core.forward_locals(era, {dest}, transparent=lambda c: False)
        sw = None
        for sb, bl in enumerate(era.blocks):
            t = bl["t"]
            if t["k"] != "switch":
                continue
            l = core.op_local(t["o"])
            if l is None:
                continue
            if any(si != "t" and d["r"]["k"] == "discr" and d["r"]["p"]["l"] in imgs and not d["r"]["p"]["pr"] for _, si, d in era.defs.get(l, [])):
                if era.dominates(bbi, sb) and (sw is None or era.dominates(sb, sw[0])):
                    sw = (sb, dict((v, x) for v, x in t["targets"]), t["otherwise"])
        if sw is None:
            rep.anchor_missing("match on the build_states result")
        else:
            sb, tg, oth = sw
            ok_t = tg.get(0)
            err_t = tg.get(1, oth)
            for ci, ct in comps:
                rep.ob("codegen.only-after-successful-construction", "%s bb%d %s" % (rel, ci, callee_of(ct)), ok_t is not None and era.dominates(ok_t, ci),
                       "code generation is reachable without the automaton construction having succeeded",
                       key="codegen-ungated:%s" % callee_of(ct).split("::")[-2], file=rel, line=ct["ln"], fn=era.path)
            bad = [callee_of(era.blocks[x]["t"]) for x in era.reachable([err_t]) if era.blocks[x]["t"]["k"] == "call"
                   and re.search(r"codegen::|intern_token::compile|emit_action_code|emit_to_triple", callee_of(era.blocks[x]["t"]) or "")]
            rep.ob("codegen.error-arm-generates-nothing", "%s Err arm bb%s" % (rel, err_t), not bad,
                   "after a conflict was reported the function still runs %s" % bad, key="codegen-after-conflict", file=rel, line=bt["ln"], fn=era.path)
            # the Err arm returns Err
            rets = []
            for x in era.reachable([err_t]):
                for si, s in enumerate(era.blocks[x]["s"]):
                    if s["k"] == "assign" and s["p"]["l"] == 0 and not s["p"]["pr"]:
                        rets.append(s["r"].get("variant") if s["r"]["k"] == "agg" else "?")
            for x in era.reachable([err_t]):
                t = era.blocks[x]["t"]
                if t["k"] == "call" and t["dest"]["l"] == 0 and "from_residual" in (callee_of(t) or ""):
                    rets.append("Err")
            # blocks after the loop exit are shared: only require that an Err is assigned before any Ok
            first_ok = "Ok" in rets and "Err" not in rets
            rep.ob("codegen.error-arm-returns-err", "%s Err arm assigns %s" % (rel, sorted(set(map(str, rets)))), "Err" in rets and not first_ok,
                   "the conflict arm does not return an error", key="conflict-arm-not-err", file=rel, line=bt["ln"], fn=era.path)
    return rep
