"""Sibling agreement on where the error pseudo-terminal lives (shared by C05 and C16):
lower() appends TerminalString::Error as the LAST terminal; error_action reads column len-1;
the TERMINAL name list drops the last element exactly when error recovery is used."""
import re

from . import core
from . import tmplutil as tu
from .core import callee_of, origins


def check(rep, f, prefix):
    # (a) lower: Error is chained after the user terminals
    lows = [b for b in f.find(r"^lalrpop::normalize::lower::LowerState::<'s>::lower$")]
    if len(lows) != 1:
        rep.anchor_missing("LowerState::lower")
        return
    lo = lows[0]
    err_aggs = [(bi, si) for bi, si, s in lo.stmts() if s["k"] == "assign" and s["r"]["k"] == "agg"
                and s["r"].get("adt", "").endswith("TerminalString") and s["r"].get("variant") == "Error"]
    rep.floor(prefix + "constructions of TerminalString::Error in lower()", len(err_aggs), 1)
    chains = [(bi, t) for bi, t in lo.calls() if (callee_of(t) or "") == "std::iter::Iterator::chain"]
    ok = False
    for bi, t in chains:
        second = origins(lo, t["args"][1], through_agg=True)
        first = origins(lo, t["args"][0], through_agg=True)
        if any(d[0] == "agg" and (d[1], d[2]) in err_aggs for d in second) or _has_error(lo, t["args"][1], err_aggs):
            if not _has_error(lo, t["args"][0], err_aggs):
                ok = True
    rep.ob(prefix + "error-terminal-appended-last", lo.path, ok,
           "TerminalString::Error is not chained after the user's terminals: its column is no longer the last one",
           key="error-terminal-not-last", file=lo.relfile(), line=lo.line, fn=lo.path)
    # (b) error_action reads column len-1
    T = f.tmpl
    ms = [m for m in T.macros if m["macro"] == "rust" and m["fmt"] and m["file"].endswith("lr1/codegen/parse_table.rs")
          and m["fn"].endswith("::write_machine_definition")]
    ms.sort(key=lambda m: m["seq"])
    hdr = [i for i, m in enumerate(ms) if re.search(r"\bfn\s+error_action\b", tu.cooked(m["fmt"]))]
    if not rep.floor(prefix + "error_action template", len(hdr), 1):
        return
    body = ms[hdr[0] + 1]
    c = tu.cooked(body["fmt"])
    args = " ".join(a["expr"] for a in body["args"])
    ok = re.search(r"action\(state,\s*·0·\)", c) is not None and bool(body["args"])
    if ok:
        # abstractly evaluate the generator expression for the column: for every terminal count n the emitted
        # Rust expression must denote n - 1
        for n in (1, 2, 3, 4, 7, 40):
            v = eval_column_expr(body["args"][0]["expr"], n)
            if v != n - 1:
                ok = False
    rep.ob(prefix + "error_action-reads-last-column", tu.short(body) + " " + c.strip(), ok,
           "error_action does not read the last terminal column (terminals.all.len() - 1): %s | %s" % (c.strip(), args[:160]),
           key="error_action-column", file=body["file"], line=body["line"], fn=body["fn"])
    # (c) TERMINAL list excludes exactly the last element under uses_error_recovery
    lets = [l for l in T.lets if l["file"].endswith("lr1/codegen/parse_table.rs") and l["fn"].endswith("::emit_terminal_repr_list")]
    ok = False
    for l in lets:
        init = l["init"]
        if re.search(r"if\s+self\s*\.\s*grammar\s*\.\s*uses_error_recovery", init) and \
                re.search(r"terminals\s*\.\s*all\s*\[\s*\.\.\s*self\s*\.\s*grammar\s*\.\s*terminals\s*\.\s*all\s*\.\s*len\s*\(\s*\)\s*-\s*1\s*\]", init) and \
                re.search(r"else\s*\{\s*&\s*self\s*\.\s*grammar\s*\.\s*terminals\s*\.\s*all\s*\}", init):
            ok = True
    rep.ob(prefix + "terminal-names-exclude-error", "parse_table.rs emit_terminal_repr_list", ok,
           "the TERMINAL name list is not `all[..len-1]` exactly when error recovery is used: expected-token lists would name the error terminal or drop a real one",
           key="terminal-list-slice", file="lalrpop/src/lr1/codegen/parse_table.rs", line=lets[0]["line"] if lets else 0)


def _has_error(body, op, err_aggs):
    """does the operand's provenance (through calls and aggregates) include the Error aggregate?"""
    o = origins(body, op, transparent=lambda c: "all" if c else None, through_agg=False)
    return any(d[0] == "agg" and (d[1], d[2]) in err_aggs for d in o)


LEN = r"self \. grammar \. terminals \. all \. len \(\s*\)"


def eval_column_expr(expr, n):
    """Evaluate the (syntax of the) generator expression that renders the error column, with
    `self.grammar.terminals.all.len()` = n; returns the integer denoted by the rendered Rust
    expression, or None when the expression is not understood."""
    e = re.sub(LEN, " LEN ", expr)
    toks = re.findall(r'"(?:[^"\\]|\\.)*"|[A-Za-z_][A-Za-z_0-9]*|\d+|==|!=|<=|>=|[{}()!,.<>+\-*]', e)
    pos = [0]

    def peek():
        return toks[pos[0]] if pos[0] < len(toks) else None

    def eat(x=None):
        t = peek()
        if x is not None and t != x:
            raise ValueError("expected %s got %s" % (x, t))
        pos[0] += 1
        return t

    def atom():
        t = peek()
        if t == "if":
            eat()
            a = atom()
            op = eat()
            b = atom()
            cond = {"==": a == b, "!=": a != b, "<=": a <= b, ">=": a >= b, "<": a < b, ">": a > b}[op]
            eat("{")
            x = value()
            eat("}")
            eat("else")
            eat("{")
            y = value()
            eat("}")
            return x if cond else y
        if t == "LEN":
            eat()
            return n
        if t is not None and t.isdigit():
            return int(eat())
        if t is not None and t.startswith('"'):
            eat()
            sv = t[1:-1]
            while peek() == ".":
                eat()
                m = eat()
                if m not in ("to_string", "to_owned", "into"):
                    raise ValueError(m)
                eat("(")
                eat(")")
            return sv
        if t == "format":
            eat()
            eat("!")
            eat("(")
            fmt = eat()[1:-1]
            args = []
            while peek() == ",":
                eat()
                if peek() == ")":
                    break
                args.append(value())
            eat(")")
            out = fmt
            for a in args:
                out = out.replace("{}", str(a), 1)
            return out
        if t == "(":
            eat()
            v = value()
            eat(")")
            return v
        raise ValueError(t)

    def value():
        v = atom()
        while peek() in ("-", "+"):
            op = eat()
            w = atom()
            v = v - w if op == "-" else v + w
        while peek() == ".":
            eat()
            m = eat()
            if m != "to_string":
                raise ValueError(m)
            eat("(")
            eat(")")
            v = str(v)
        return v

    try:
        r = value()
        if pos[0] != len(toks):
            return None
        r = str(r)
        if not re.fullmatch(r"[\d\s+\-*()]+", r):
            return None
        return int(eval(r, {"__builtins__": {}}, {}))
    except Exception:
        return None
