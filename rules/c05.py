"""C05 -- expected-token lists name only tokens that could actually continue the input
(clause: which computation is wired in)."""
import re

from . import core
from . import tmplutil as tu
from . import errorcol
from .core import callee_of, callee_decl, origins
from .report import Report
from .smachine import SM, PD, P
from .buildproto import identity_param

LEVEL = "other"
EXPLANATION = (
    "Wiring rules: (a) MIR: Parser::unrecognized_token_error fills `expected` of both UnrecognizedToken and "
    "UnrecognizedEof from definition.expected_tokens_from_states(states) with its whole `states` parameter, and all "
    "its callers pass the whole state stack; (b) templates: the generated override of expected_tokens_from_states "
    "delegates to the generated function that filters the TERMINAL name list through the accepts(None, states, "
    "Some(index)) simulation; (c) the TERMINAL list excludes exactly the error column (sibling agreement, shared "
    "with C16); (d) sibling rule: a backend that builds `expected:` from anything other than that simulation is "
    "reported. Whether the simulation itself is exact (validity of each listed terminal) is NOT decided.")


def run(tier):
    rep = Report("C05", LEVEL, tier)
    rep.explanation = EXPLANATION
    rep.not_decided = "that every listed terminal is a valid continuation (correctness of the tables and of goto/action/simulate_reduce; the simulation loop is checked for its stack discipline only); completeness for canonical LR(1); absence of duplicates"
    rep.trusted = ["rustc MIR", "syn parse of the generator"]
    f = core.Facts(core.ensure_facts())
    sm = SM(f)
    ute = sm.b["unrecognized_token_error"]
    # ---- (a)
    n = 0
    for bi, si, s in ute.stmts():
        if s["k"] == "assign" and s["r"]["k"] == "agg" and s["r"].get("adt") == "lalrpop_util::ParseError" and "expected" in s["r"]["fields"]:
            n += 1
            idx = s["r"]["fields"].index("expected")
            o = origins(ute, s["r"]["ops"][idx])
            ok = bool(o) and all(d[0] == "call" and d[1] == PD + "expected_tokens_from_states" for d in o)
            if ok:
                for d in o:
                    t = ute.blocks[d[2]]["t"]
                    ok = ok and identity_param(ute, t["args"][1]) == 3
            rep.ob("runtime.expected-from-state-stack-simulation", "unrecognized_token_error %s.expected <- %s" % (s["r"]["variant"], sorted(x[1].split("::")[-1] for x in o)), ok,
                   "`expected` of %s is not definition.expected_tokens_from_states(<the whole states parameter>)" % s["r"]["variant"],
                   key="runtime-expected:%s" % s["r"]["variant"], file=ute.relfile(), line=s["ln"], fn=ute.path)
    rep.floor("ParseError constructions with an expected list (runtime)", n, 2)
    n = 0
    for b in sm.util:
        for bi, t in b.calls():
            if callee_of(t) == ute.path:
                n += 1
                o = origins(b, t["args"][2])
                ok = bool(o) and all(d[0] == "arg" and d[1] == 1 and d[2] and d[2][-1] == "states" for d in o)
                # no slicing on the way
                sl = core.slice_locals(b, [t["args"][2]])
                sliced = any((callee_of(tt) or "").endswith("::index") or "slice" in (callee_of(tt) or "") for bb, tt in b.calls() if tt["dest"]["l"] in sl)
                rep.ob("runtime.whole-state-stack-passed", "%s -> unrecognized_token_error(.., %s)" % (b.path.split("::")[-1], sorted(o)), ok and not sliced,
                       "the error is computed from something other than the whole state stack", key="runtime-states-arg:%s" % b.path.split("::")[-1],
                       file=b.relfile(), line=t["ln"], fn=b.path)
    rep.floor("callers of unrecognized_token_error", n, 3)
    # ---- (b)
    T = f.tmpl
    gen = [m for m in T.macros if m["macro"] == "rust" and m["fmt"]]
    md = sorted([m for m in gen if m["file"].endswith("lr1/codegen/parse_table.rs") and m["fn"].endswith("::write_machine_definition")], key=lambda m: m["seq"])
    hdr = [i for i, m in enumerate(md) if re.search(r"\bfn\s+expected_tokens_from_states\b", tu.cooked(m["fmt"]))]
    if rep.floor("override of expected_tokens_from_states in the generated ParserDefinition", len(hdr), 1):
        body = tu.cooked(md[hdr[0] + 1]["fmt"])
        ok = re.search(r"·p·expected_tokens_from_states\(states\b", body) is not None
        rep.ob("generated.override-delegates", "%s `%s`" % (tu.short(md[hdr[0] + 1]), body.strip()), ok,
               "the generated ParserDefinition::expected_tokens_from_states does not call the generated simulation-based function",
               key="generated-override", file=md[hdr[0]]["file"], line=md[hdr[0]]["line"], fn=md[hdr[0]]["fn"])
    ef = sorted([m for m in gen if m["file"].endswith("lr1/codegen/parse_table.rs") and m["fn"].endswith("::emit_expected_tokens_from_states_fn")], key=lambda m: m["seq"])
    text = " ".join(tu.cooked(m["fmt"]) for m in ef)
    ok = re.search(r"·\w+·TERMINAL\.iter\(\)\.enumerate\(\)\.filter_map", text) is not None and \
        re.search(r"if\s+·p·accepts\(None,\s*·p·states,\s*Some\(index\)", text) is not None
    rep.ob("generated.filter-terminals-through-accepts", "emit_expected_tokens_from_states_fn (%d templates)" % len(ef), ok,
           "the generated expected_tokens_from_states does not filter TERMINAL through accepts(None, states, Some(index), ..)",
           key="generated-simulation", file="lalrpop/src/lr1/codegen/parse_table.rs", line=ef[0]["line"] if ef else 0)
    # ---- (b2) the simulation itself keeps a real stack
    accepts_simulation(rep, gen)
    # ---- (c)
    errorcol.check(rep, f, "errorcol.")
    # ---- (d) sibling rule over templates that build an error with `expected:`
    n = 0
    for (file, fn), ms in tu.by_fn(gen).items():
        uses = [m for m in ms if re.search(r"\bexpected\s*:", tu.cooked(m["fmt"]))]
        if not uses:
            continue
        n += 1
        # where does the value named in `expected: X` come from in this function?
        text = " ".join(tu.cooked(m["fmt"]) for m in ms)
        simulated = re.search(r"expected_tokens_from_states|accepts\(", text) is not None
        local_list = [m for m in ms if re.search(r"let\s+·\w+·expected\s*=", tu.cooked(m["fmt"]))]
        ok = simulated and not local_list
        rep.ob("sibling.expected-comes-from-simulation", "%s %s (%d `expected:` templates)" % (file.split("src/")[-1], fn.split("::")[-1], len(uses)), ok,
               "this backend fills `expected` from a list computed at generation time from the actions of the current state only "
               "(%s); with LALR/lane-table default reductions it names terminals that cannot follow the consumed prefix, whereas the "
               "table-driven backend simulates the whole state stack" % (tu.cooked(local_list[0]["fmt"]).strip() if local_list else "no simulation call"),
               key="expected-not-simulated:%s:%s" % (file.split("/")[-1], fn.split("::")[-1]), file=file, line=uses[0]["line"], fn=fn)
    rep.floor("template functions building an `expected:` field", n, 1)
    return rep


def accepts_simulation(rep, gen):
    """`accepts` decides whether a terminal is a valid continuation by replaying default reductions on the state stack
    until a shift/accept (true) or an error (false). A chain of reductions can push arbitrarily many states (every empty
    production pushes without popping), so the replay needs its own copy of the whole stack with pop-n / push: each step of
    that discipline must be present in the generated text, in this order."""
    ms = sorted([m for m in gen if m["file"].endswith("lr1/codegen/parse_table.rs") and m["fn"].endswith("::write_accepts_fn")
                 and not any(g["kind"] == "if" and "DEBUG" in g["cond"] for g in m["guards"])], key=lambda m: m["seq"])
    if not rep.floor("templates of write_accepts_fn", len(ms), 15):
        return
    lines = [re.sub(r"·\w+·", "·p·", tu.cooked(m["fmt"])).strip() for m in ms]
    li = next((i for i, l in enumerate(lines) if re.match(r"^(loop|while\b.*)\s*\{$", l)), None)
    if li is None:
        rep.anchor_missing("simulation loop in write_accepts_fn")
        return
    pre, body = lines[:li], lines[li:]
    file, fn = ms[0]["file"], ms[0]["fn"]

    def find(seq, rx, start=0):
        for i in range(start, len(seq)):
            mm = re.search(rx, seq[i])
            if mm:
                return i, mm
        return None, None
    i_copy, m_copy = find(pre, r"let mut ·p·(\w+)(?::[^=]+)? = (?:·p·states\.(?:to_vec|to_owned)\(\)|Vec::from\(·p·states\)|·p·states\.iter\(\)\.(?:copied|cloned)\(\)\.collect)")
    stack = m_copy.group(1) if m_copy else None
    rep.ob("accepts.own-copy-of-whole-stack", "write_accepts_fn: %s" % (pre[i_copy] if i_copy is not None else "no copy of `states` before the loop"), stack is not None,
           "the simulation does not work on its own copy of the whole state stack: it cannot both leave the parser's stack untouched and hold the states that a "
           "chain of simulated reductions pushes", key="accepts-sim:no-stack-copy", file=file, line=ms[0]["line"], fn=fn)
    if stack is None:
        return
    S = "·p·" + re.escape(stack)
    i_err, _ = find(pre, S + r"\.(extend|push)\(·p·error_state")
    rep.ob("accepts.error-state-on-top", "write_accepts_fn: %s" % (pre[i_err] if i_err is not None else "-"), i_err is not None and i_err > i_copy,
           "the optional error state is not pushed on the simulated stack", key="accepts-sim:error-state", file=file, line=ms[0]["line"], fn=fn)
    i_top, _ = find(body, r"let ·p·top = (?:" + S + r"\[·p·states_len - 1\]|\*" + S + r"\.last\(\)\.unwrap\(\))")
    i_false, _ = find(body, r"if ·p·action == 0 \{ return false; \}")
    i_true, _ = find(body, r"if ·p·action > 0 \{ return true; \}")
    i_red, _ = find(body, r"·p·simulate_reduce\(-\(·p·action \+ 1\)")
    rep.ob("accepts.decision", "top read at %s, error->false at %s, shift->true at %s, reduce simulated at %s" % (i_top, i_false, i_true, i_red),
           None not in (i_top, i_false, i_true, i_red) and i_top < i_false < i_red and i_top < i_true < i_red,
           "the simulation does not read the action of the top state, answer false on error / true on shift, and replay reductions otherwise",
           key="accepts-sim:decision", file=file, line=ms[0]["line"], fn=fn)
    start = i_red or 0
    i_dec, _ = find(body, r"·p·states_len -= ·p·to_pop;", start)
    i_pop, _ = find(body, S + r"\.(?:truncate\(·p·states_len\)|drain\(·p·states_len\.\.\)|split_off\(·p·states_len\))", start)
    rep.ob("accepts.pop-states-to-pop", "after simulate_reduce: %s ; %s" % (body[i_dec] if i_dec is not None else "-", body[i_pop] if i_pop is not None else "-"),
           i_dec is not None and i_pop is not None and i_dec < i_pop,
           "a simulated reduction does not pop exactly `states_to_pop` states from the simulated stack", key="accepts-sim:pop", file=file, line=ms[0]["line"], fn=fn)
    i_top2, _ = find(body, r"let ·p·top = " + S + r"\[·p·states_len - 1\];", (i_pop or start) + 1)
    i_goto, _ = find(body, r"let ·p·next_state = ·p·goto\(·p·top, ·p·nt\);", (i_top2 or start))
    i_push, _ = find(body, S + r"\.push\(·p·next_state\);", (i_goto or start))
    rep.ob("accepts.push-goto-state", "new top at %s, goto at %s, push at %s" % (i_top2, i_goto, i_push), None not in (i_top2, i_goto, i_push) and i_top2 < i_goto < i_push,
           "after popping, the goto state of the exposed top is not pushed on the simulated stack: a following reduction sees the wrong states (a single slot "
           "cannot hold the two states that `reduce; reduce-empty` pushes)", key="accepts-sim:push", file=file, line=ms[0]["line"], fn=fn)
