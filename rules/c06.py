"""C06 -- location tracking follows token positions identically in both backends
(clause: empty-reduction location chain; @L/@R actions)."""
from . import core
from .report import Report
from . import locchain

LEVEL = "other"
EXPLANATION = (
    "Sibling agreement over the code-emission templates: every template that computes the start location of a "
    "production popping no symbols (1 in the table-driven backend, 3 in the recursive-ascent backend, found by "
    "their guard stack) must consult the lookahead start first, then the end of the top stack symbol, then the "
    "default; the @L action returns the lookahead location and the @R action the lookbehind location. Spans of "
    "non-empty symbols and equality of whole parse results are NOT decided.")


def run(tier, prop="C06"):
    rep = Report(prop, LEVEL, tier)
    rep.explanation = EXPLANATION
    rep.not_decided = "spans of non-empty symbols, inlined empty items, equality of results of the two backends on all inputs"
    rep.trusted = ["syn parse of the generator sources", "guard-stack extraction (tmplfacts)"]
    f = core.Facts(core.ensure_facts())
    locchain.check_chain(rep, f)
    if prop == "C06":
        locchain.check_lookaround(rep, f)
        locchain.check_inline_spans(rep, f)
        from .smachine import check_reduce_lookahead
        check_reduce_lookahead(rep, f, "driver.")
    return rep
