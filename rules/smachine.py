"""Shared helpers for the rules over lalrpop_util::state_machine (C04, C16, C17, C05)."""
import re

from . import core
from .core import callee_of, callee_decl, origins

PD = "lalrpop_util::state_machine::ParserDefinition::"
PA = "lalrpop_util::state_machine::ParserAction::"
P = "lalrpop_util::state_machine::Parser::<D, I>::"


class SM:
    def __init__(self, f):
        self.f = f
        self.b = {}
        for n in ("parse", "parse_eof", "error_recovery", "next_token", "unrecognized_token_error",
                  "drive", "accepts", "reduce", "top_state"):
            self.b[n] = f.one("^" + re.escape(P + n) + "$")
        self.util = [b for b in f.bodies.values() if b.unit == "lalrpop_util-lib"]

    def calls(self, body, suffix_or_rx):
        out = []
        for bi, t in body.calls():
            c = callee_decl(t) or ""
            r = callee_of(t) or ""
            if isinstance(suffix_or_rx, str):
                if c == suffix_or_rx or r == suffix_or_rx:
                    out.append((bi, t))
            elif suffix_or_rx.search(c) or suffix_or_rx.search(r):
                out.append((bi, t))
        return out

    def is_debug(self, t):
        return bool(t.get("exp")) and "debug!" in t.get("mac", "")


def none_side_block(body, dbi):
    """For a call block `dbi` returning Option (as_shift/as_reduce), the switch on its discriminant:
    returns (switch_block, some_target, none_target) or None."""
    dest = body.blocks[dbi]["t"]["dest"]["l"]
    imgs = core.forward_locals(body, {dest}, transparent=lambda c: False)
    for bi, bl in enumerate(body.blocks):
        t = bl["t"]
        if t["k"] != "switch":
            continue
        l = core.op_local(t["o"])
        if l is None:
            continue
        for dbi2, si, d in body.defs.get(l, []):
            if si != "t" and d["r"]["k"] == "discr" and d["r"]["p"]["l"] in imgs and not d["r"]["p"]["pr"]:
                tg = dict((v, x) for v, x in t["targets"])
                some = tg.get(1)
                none = tg.get(0, t["otherwise"] if 1 in tg else None)
                if some is None and 0 in tg:
                    some = t["otherwise"]
                return bi, some, none
    return None


def whole_defs_of_return(body):
    """(block, stmt|'t', origin-set) of every assignment to the return place"""
    out = []
    for bi, si, d in body.defs.get(0, []):
        if si == "t":
            out.append((bi, si, {("call", callee_of(d) or "?", bi, ())}, d))
        else:
            r = d["r"]
            if r["k"] == "agg":
                o = set()
                for op in r["ops"]:
                    o |= origins(body, op)
                out.append((bi, si, o, d))
            elif r["k"] in ("use",):
                out.append((bi, si, origins(body, r["o"]), d))
            else:
                out.append((bi, si, {("other", bi, si, ())}, d))
    return out


def check_reduce_lookahead(rep, f, prefix=""):
    """Every reduction is given, as `lookahead start`, the start (.0) of the token currently in the
    lookahead slot, or None at end of input -- never any other location (an empty production takes its
    span from it, C06; error nodes are ordered with respect to the following token, C16)."""
    from . import symex
    sm = SM(f)
    n = 0
    for name in ("parse", "parse_eof", "error_recovery", "reduce"):
        b = sm.b[name]
        for bi, t in b.calls():
            c = callee_of(t) or ""
            d = callee_decl(t) or ""
            if not (c == P + "reduce" or d == PD + "reduce"):
                continue
            n += 1
            arg = t["args"][2]
            o = origins(b, arg, transparent=lambda cc: None)
            verdict, detail = False, sorted(map(str, o))[:4]
            kinds = set()
            for x in o:
                if x[0] == "agg":
                    r = b.blocks[x[1]]["s"][x[2]]["r"]
                    if r.get("variant") == "None":
                        kinds.add("None")
                    elif r.get("variant") == "Some":
                        io = origins(b, r["ops"][0])
                        good = bool(io) and all((y[0] == "call" and (y[1].endswith("::next_token") or y[1].endswith("::error_recovery")) and y[3] and y[3][-1] == "0")
                                                or (y[0] == "arg" and y[2] and y[2][-1] == "0" and "last_location" not in y[2]) for y in io)
                        kinds.add("Some(lookahead.0)" if good else "Some(%s)" % sorted(map(str, io))[:2])
                elif x[0] == "arg" and not x[2] and name == "reduce":
                    kinds.add("pass-through")
                elif x[0] == "call" and x[1] == "std::option::Option::<T>::map":
                    mt = b.blocks[x[2]]["t"]
                    src = origins(b, mt["args"][0], transparent=lambda cc: [0] if cc and cc.endswith("Option::<T>::as_ref") else None)
                    slot_origins = origins(b, 2, transparent=lambda cc: None) | {("arg", 2, ())}
                    from_la = bool(src) and src <= slot_origins and ("arg", 2, ()) in src
                    clo = origins(b, mt["args"][1])
                    body_ok = False
                    for y in clo:
                        if y[0] == "agg":
                            cr = b.blocks[y[1]]["s"][y[2]]["r"]
                            cb = f.body(cr.get("closure", ""))
                            if cb is not None:
                                rr = symex.term_eval(f, cb, inline=lambda p: False)
                                body_ok = len(rr) == 1 and rr[0][0] == ("proj", ("sym", "arg2"), ("field", "0"))
                        if y[0] == "const" and "closure" in y[1]:
                            import json as _j
                            cb = f.body(_j.loads(y[1]).get("closure", ""))
                            if cb is not None:
                                rr = symex.term_eval(f, cb, inline=lambda p: False)
                                body_ok = len(rr) == 1 and rr[0][0] == ("proj", ("sym", "arg2"), ("field", "0"))
                    kinds.add("opt_lookahead.map(|l| &l.0)" if from_la and body_ok else "map(?)")
                else:
                    kinds.add(str(x)[:60])
            good = kinds and kinds <= {"None", "Some(lookahead.0)", "pass-through", "opt_lookahead.map(|l| &l.0)"}
            rep.ob(prefix + "reduce.lookahead-start-is-start-of-lookahead", "%s bb%d reduce(.., %s)" % (name, bi, sorted(kinds)), bool(good),
                   "a reduction is told that the lookahead starts at %s: empty productions reduced here (and error nodes around them) get a location that "
                   "is not the start of the next token" % sorted(kinds), key="reduce-lookahead-start:%s" % name, file=b.relfile(), line=t["ln"], fn=b.path)
    rep.floor(prefix + "reduce call sites in the driver", n, 4)
