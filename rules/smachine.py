"""Shared helpers for the rules over lalrpop_util::state_machine (C04, C16, C17, C05)."""
import re

from . import core
from .core import callee_of, callee_decl, origins

PD = "lalrpop_util::state_machine::ParserDefinition::"
PA = "lalrpop_util::state_machine::ParserAction::"
P = "lalrpop_util::state_machine::Parser::<D, I>::"


class SM:
    def __init__(self, f):
        self.f = f
        self.b = {}
        for n in ("parse", "parse_eof", "error_recovery", "next_token", "unrecognized_token_error",
                  "drive", "accepts", "reduce", "top_state"):
            self.b[n] = f.one("^" + re.escape(P + n) + "$")
        self.util = [b for b in f.bodies.values() if b.unit == "lalrpop_util-lib"]

    def calls(self, body, suffix_or_rx):
        out = []
        for bi, t in body.calls():
            c = callee_decl(t) or ""
            r = callee_of(t) or ""
            if isinstance(suffix_or_rx, str):
                if c == suffix_or_rx or r == suffix_or_rx:
                    out.append((bi, t))
            elif suffix_or_rx.search(c) or suffix_or_rx.search(r):
                out.append((bi, t))
        return out

    def is_debug(self, t):
        return bool(t.get("exp")) and "debug!" in t.get("mac", "")


def none_side_block(body, dbi):
    """For a call block `dbi` returning Option (as_shift/as_reduce), the switch on its discriminant:
    returns (switch_block, some_target, none_target) or None."""
    dest = body.blocks[dbi]["t"]["dest"]["l"]
    imgs = core.forward_locals(body, {dest}, transparent=lambda c: False)
    for bi, bl in enumerate(body.blocks):
        t = bl["t"]
        if t["k"] != "switch":
            continue
        l = core.op_local(t["o"])
        if l is None:
            continue
        for dbi2, si, d in body.defs.get(l, []):
            if si != "t" and d["r"]["k"] == "discr" and d["r"]["p"]["l"] in imgs and not d["r"]["p"]["pr"]:
                tg = dict((v, x) for v, x in t["targets"])
                some = tg.get(1)
                none = tg.get(0, t["otherwise"] if 1 in tg else None)
                if some is None and 0 in tg:
                    some = t["otherwise"]
                return bi, some, none
    return None


def whole_defs_of_return(body):
    """(block, stmt|'t', origin-set) of every assignment to the return place"""
    out = []
    for bi, si, d in body.defs.get(0, []):
        if si == "t":
            out.append((bi, si, {("call", callee_of(d) or "?", bi, ())}, d))
        else:
            r = d["r"]
            if r["k"] == "agg":
                o = set()
                for op in r["ops"]:
                    o |= origins(body, op)
                out.append((bi, si, o, d))
            elif r["k"] in ("use",):
                out.append((bi, si, origins(body, r["o"]), d))
            else:
                out.append((bi, si, {("other", bi, si, ())}, d))
    return out
