"""C25 -- generated code is hygienic under renaming (clause: names synthesised by normalisation passes)."""
import re

from . import core
from . import tmplutil as tu
from .report import Report

LEVEL = "other"
EXPLANATION = (
    "Every nonterminal name and binding name that a normalisation pass *invents* (syntax tree: "
    "NonterminalString(Atom::from(format!(..))) and Atom::from(\"lit\") that is not a type path, lifetime or "
    "keyword) must be impossible for a user to write: it must contain the grammar prefix (searched to be unique "
    "for the input text) or a character that cannot occur in an identifier. A name built only from user "
    "identifiers and digits/letters can collide with a user's own nonterminal, grammar parameter or binding, so a "
    "renaming of user identifiers changes acceptance or compilation. Hygiene of every local identifier in the 530 "
    "emission templates is NOT decided (needs scope reasoning).")

# literals that are not binders: type paths, lifetimes, keyword-like (frozen reference table)
NOT_BINDER_CTX = ("Path{ids}", "Lifetime", "TypeRef::Id", "TypeRepr::Nominal", "NominalTypeRepr{path}", "TypeRef::Nominal")
NOT_BINDER_LIT = {"_": "wildcard pattern", "'_": "anonymous lifetime", "'static": "static lifetime"}


def run(tier):
    rep = Report("C25", LEVEL, tier)
    rep.explanation = EXPLANATION
    rep.not_decided = "hygiene of unprefixed local binders inside emitted function bodies"
    rep.trusted = ["syn parse of the normalisation passes", "call-chain extraction (tmplfacts)"]
    f = core.Facts(core.ensure_facts())
    T = f.tmpl
    n = 0
    for m in T.macros:
        if m["macro"] != "format" or m["fmt"] is None:
            continue
        if "/normalize/" not in m["file"] and "/grammar/" not in m["file"]:
            continue
        chain = m["calls"]
        is_nt = any(c.endswith("NonterminalString") for c in chain)
        is_atom = any(c == "Atom::from" for c in chain)
        if not (is_nt or is_atom):
            continue
        if any(c in NOT_BINDER_CTX for c in chain):
            # type paths such as `{prefix}lalrpop_util`: still must carry the prefix
            pass
        n += 1
        segs = tu.segments(m["fmt"])
        lits = "".join(s[1] for s in segs if s[0] == "lit")
        args = [tu.arg_of(m, s[1]) or "" for s in segs if s[0] == "ph"]
        has_prefix = any(re.search(r"\bprefix\b", a) for a in args)
        has_nonident = re.search(r"[^A-Za-z0-9_]", lits) is not None and not lits.startswith("'")
        identity = len(segs) == 1 and segs[0][0] == "ph"          # the user's own name, reused as is
        ok = has_prefix or has_nonident or identity
        kind = "nonterminal" if is_nt else "name"
        rep.ob("synthesised-%s-is-unforgeable" % kind,
               "%s format!(%r, %s) via %s" % (tu.short(m), m["fmt"], ", ".join(args), "/".join(chain[-3:])), ok,
               "a %s is invented as format!(%r, %s): built only from user identifiers and alphanumerics, it can coincide with a name "
               "the user declared (e.g. a nonterminal `E1` next to a two-level precedence nonterminal `E`)" % (kind, m["fmt"], ", ".join(args)),
               key="synth-%s:%s" % (kind, m["fn"].split("::")[-1]), file=m["file"], line=m["line"], fn=m["fn"])
        rep.sample({"site": tu.short(m), "fmt": m["fmt"], "args": args, "ok": ok})
    for l in T.lits:
        if "/normalize/" not in l["file"]:
            continue
        chain = l["calls"]
        if not chain or chain[-1] != "Atom::from":
            continue
        if any(c in NOT_BINDER_CTX for c in chain):
            continue
        if l["value"] in NOT_BINDER_LIT:
            continue
        n += 1
        v = l["value"]
        ok = re.search(r"[^A-Za-z0-9_]", v) is not None
        rep.ob("synthesised-binding-is-unforgeable", "%s:%d Atom::from(%r) in %s" % (l["file"], l["line"], v, l["fn"].split("::")[-1]), ok,
               "a binding named `%s` is invented without the grammar prefix: it shares the parameter list of the generated action "
               "function with the user's grammar parameters (e.g. `grammar(%s: u32)` plus a `+`/`*` repetition binds `%s` twice: E0415)" % (v, v, v),
               key="synth-binding:%s:%s" % (l["fn"].split("::")[-1], v), file=l["file"], line=l["line"], fn=l["fn"])
    rep.floor("synthesised-name sites", n, 6)
    prefix_search(rep, f)
    escape_injective(rep, f)
    return rep


def escape_injective(rep, f):
    """util::Escape turns derived nonterminal names (`Num*`, `(<A> ",")+`) into identifiers for the recursive-ascent
    generator. Distinct names must give distinct identifiers, also against user names that look like an escaped name:
    the character that introduces an escape sequence must never be copied verbatim."""
    arms = [m for m in f.tmpl.macros if m["fn"].startswith("<Escape<") and m["fn"].endswith("as Display>::fmt") and m["macro"] in ("write", "writeln")
            and any(g["kind"] == "match" for g in m["guards"])]
    if not arms:
        rep.anchor_missing("match arms of <Escape<S> as Display>::fmt")
        return
    intro = set()
    for m in arms:
        mm = re.match(r"^([^{}])\{[^}]*\}$", m["fmt"] or "")
        if mm and m["args"]:
            intro.add(mm.group(1))
    rep.floor("escape-sequence arms in Escape::fmt", len(intro), 1)
    for m in arms:
        g = [x for x in m["guards"] if x["kind"] == "match"][-1]
        var = g["cond"].strip()
        verbatim = (m["fmt"] or "") == "{%s}" % var or ((m["fmt"] or "") == "{}" and len(m["args"]) == 1 and m["args"][0]["expr"].strip() == var)
        if not verbatim:
            continue
        covered = set()
        for alt in g["pat"].split("|"):
            alt = alt.strip()
            r = re.match(r"^'(.)'\s*\.\.=\s*'(.)'$", alt)
            if r:
                covered |= {ch for ch in intro if r.group(1) <= ch <= r.group(2)}
            elif re.match(r"^'(.)'$", alt):
                covered |= {alt[1]} & intro
            else:
                covered |= intro       # wildcard / binding / guard we cannot read: assume it covers the introducer
        rep.ob("escape.introducer-never-verbatim", "Escape::fmt arm `%s` copies the character; escape introducer(s) %s" % (g["pat"], sorted(intro)), not covered,
               "Escape copies its own escape introducer %s verbatim: the user nonterminal `Num_2a` and the derived nonterminal `Num*` (escaped `Num_2a`) get the same "
               "identifier in the recursive-ascent output (duplicate enum variant)" % sorted(covered), key="escape:introducer-verbatim",
               file=m["file"], line=m["line"], fn=m["fn"])


def prefix_search(rep, f):
    """The internal prefix is unique because parse_grammar extends it until it occurs nowhere in the input text.
    Path rule on the MIR of parse_grammar: (a) the occurrence test is a `contains`/`find` whose haystack is the
    `input` parameter itself (not a slice or a cursor that shrinks); (b) every extension of `grammar.prefix` is followed
    by that test again on all paths; (c) the successful return is reached only through the negative outcome of the
    test and the prefix is not written afterwards."""
    b = f.body("lalrpop::parser::parse_grammar")
    if b is None:
        rep.anchor_missing("parser::parse_grammar")
        return
    tests = []
    for bi, t in b.calls():
        c = core.callee_of(t) or ""
        if not re.search(r"str::<impl str>::(contains|find|rfind|matches|match_indices)$", c) or len(t["args"]) < 2:
            continue
        needle = core.origins(b, t["args"][1], transparent=lambda c: "all" if c else None)
        if not any("prefix" in d[2] for d in needle if d[0] in ("arg", "local", "call") and len(d) > 2 and isinstance(d[2], tuple)) and \
           not any(e[0] == "field" and e[2] == "prefix" for dl in [core.op_local(t["args"][1])] if dl is not None for _, si, d in b.defs.get(dl, []) if si != "t" and d["r"]["k"] == "ref" for e in d["r"]["p"]["pr"]):
            continue
        hay = core.origins(b, t["args"][0], record_calls=True)
        whole = bool(hay) and all(d[0] == "arg" and d[1] == 1 for d in hay)
        tests.append((bi, t, whole, sorted({d[1] if d[0] == "call" else d[0] for d in hay if not (d[0] == "arg" and d[1] == 1)})))
    rep.floor("occurrence tests of the prefix in parse_grammar", len(tests), 1)
    good = [x for x in tests if x[2]]
    for bi, t, whole, other in tests:
        rep.ob("prefix.search-scans-whole-input", "parse_grammar line %d: haystack is %s" % (t["ln"], "the `input` parameter" if whole else "derived via %s" % other), whole,
               "the uniqueness test for the generated-name prefix does not scan the whole grammar text (the haystack is a slice/cursor: %s): an occurrence of the "
               "longer prefix that overlaps or precedes the position already scanned is missed, so a user identifier such as `____0` can equal a generated name" % other,
               key="prefix-search:partial-haystack", file=b.relfile(), line=t["ln"], fn=b.path)
    pushes = []
    for bi, t in b.calls():
        c = core.callee_of(t) or ""
        if re.search(r"String::(push|push_str|insert|insert_str|extend|clear|truncate|pop)$", c) and t["args"]:
            l = core.op_local(t["args"][0])
            if any(si != "t" and d["r"]["k"] == "ref" and any(e[0] == "field" and e[2] == "prefix" for e in d["r"]["p"]["pr"]) for _, si, d in (b.defs.get(l, []) if l is not None else [])):
                pushes.append((bi, t))
    rep.floor("extensions of grammar.prefix in parse_grammar", len(pushes), 1)
    gb = {x[0] for x in good}
    for bi, t in pushes:
        reach = b.reachable(b.succ[bi], removed_blocks=gb)
        esc = [x for x in b.return_blocks() if x in reach]
        rep.ob("prefix.retested-after-extension", "parse_grammar line %d: %s" % (t["ln"], core.callee_of(t)), bool(gb) and not esc,
               "after the prefix is changed the function can return without testing the new prefix against the whole input", key="prefix-search:no-retest",
               file=b.relfile(), line=t["ln"], fn=b.path)
    # (c) Ok-return only through the negative edge of a whole-input test
    okret = [bi for bi, _, s in b.stmts() if s["k"] == "assign" and s["p"]["l"] == 0 and not s["p"]["pr"] and s["r"]["k"] == "agg" and str(s["r"].get("variant")) in ("Ok", "0")]
    neg_targets = set()
    for bi, t, whole, _ in good:
        sw = b.blocks[t["t"]]["t"] if t.get("t") is not None else None
        if sw and sw["k"] == "switch" and core.op_local(sw["o"]) == t["dest"]["l"]:
            neg_targets |= {x for v, x in sw["targets"] if v == 0}
    for ob_ in set(okret):
        dom = any(b.dominates(x, ob_) for x in neg_targets)
        rep.ob("prefix.success-only-when-absent", "parse_grammar Ok-return block %d dominated by the `not found` edge of the test" % ob_, dom,
               "parse_grammar can return a grammar without having established that its prefix occurs nowhere in the input", key="prefix-search:unguarded-return",
               file=b.relfile(), line=b.line, fn=b.path)
    rep.floor("Ok-returns of parse_grammar", len(set(okret)), 1)
