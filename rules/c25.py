"""C25 -- generated code is hygienic under renaming (clause: names synthesised by normalisation passes)."""
import re

from . import core
from . import tmplutil as tu
from .report import Report

LEVEL = "other"
EXPLANATION = (
    "Every nonterminal name and binding name that a normalisation pass *invents* (syntax tree: "
    "NonterminalString(Atom::from(format!(..))) and Atom::from(\"lit\") that is not a type path, lifetime or "
    "keyword) must be impossible for a user to write: it must contain the grammar prefix (searched to be unique "
    "for the input text) or a character that cannot occur in an identifier. A name built only from user "
    "identifiers and digits/letters can collide with a user's own nonterminal, grammar parameter or binding, so a "
    "renaming of user identifiers changes acceptance or compilation. Hygiene of every local identifier in the 530 "
    "emission templates is NOT decided (needs scope reasoning).")

# literals that are not binders: type paths, lifetimes, keyword-like (frozen reference table)
NOT_BINDER_CTX = ("Path{ids}", "Lifetime", "TypeRef::Id", "TypeRepr::Nominal", "NominalTypeRepr{path}", "TypeRef::Nominal")
NOT_BINDER_LIT = {"_": "wildcard pattern", "'_": "anonymous lifetime", "'static": "static lifetime"}


def run(tier):
    rep = Report("C25", LEVEL, tier)
    rep.explanation = EXPLANATION
    rep.not_decided = "hygiene of unprefixed local binders inside emitted function bodies; the prefix search itself (parser::parse_grammar)"
    rep.trusted = ["syn parse of the normalisation passes", "call-chain extraction (tmplfacts)"]
    f = core.Facts(core.ensure_facts())
    T = f.tmpl
    n = 0
    for m in T.macros:
        if m["macro"] != "format" or m["fmt"] is None:
            continue
        if "/normalize/" not in m["file"] and "/grammar/" not in m["file"]:
            continue
        chain = m["calls"]
        is_nt = any(c.endswith("NonterminalString") for c in chain)
        is_atom = any(c == "Atom::from" for c in chain)
        if not (is_nt or is_atom):
            continue
        if any(c in NOT_BINDER_CTX for c in chain):
            # type paths such as `{prefix}lalrpop_util`: still must carry the prefix
            pass
        n += 1
        segs = tu.segments(m["fmt"])
        lits = "".join(s[1] for s in segs if s[0] == "lit")
        args = [tu.arg_of(m, s[1]) or "" for s in segs if s[0] == "ph"]
        has_prefix = any(re.search(r"\bprefix\b", a) for a in args)
        has_nonident = re.search(r"[^A-Za-z0-9_]", lits) is not None and not lits.startswith("'")
        identity = len(segs) == 1 and segs[0][0] == "ph"          # the user's own name, reused as is
        ok = has_prefix or has_nonident or identity
        kind = "nonterminal" if is_nt else "name"
        rep.ob("synthesised-%s-is-unforgeable" % kind,
               "%s format!(%r, %s) via %s" % (tu.short(m), m["fmt"], ", ".join(args), "/".join(chain[-3:])), ok,
               "a %s is invented as format!(%r, %s): built only from user identifiers and alphanumerics, it can coincide with a name "
               "the user declared (e.g. a nonterminal `E1` next to a two-level precedence nonterminal `E`)" % (kind, m["fmt"], ", ".join(args)),
               key="synth-%s:%s" % (kind, m["fn"].split("::")[-1]), file=m["file"], line=m["line"], fn=m["fn"])
        rep.sample({"site": tu.short(m), "fmt": m["fmt"], "args": args, "ok": ok})
    for l in T.lits:
        if "/normalize/" not in l["file"]:
            continue
        chain = l["calls"]
        if not chain or chain[-1] != "Atom::from":
            continue
        if any(c in NOT_BINDER_CTX for c in chain):
            continue
        if l["value"] in NOT_BINDER_LIT:
            continue
        n += 1
        v = l["value"]
        ok = re.search(r"[^A-Za-z0-9_]", v) is not None
        rep.ob("synthesised-binding-is-unforgeable", "%s:%d Atom::from(%r) in %s" % (l["file"], l["line"], v, l["fn"].split("::")[-1]), ok,
               "a binding named `%s` is invented without the grammar prefix: it shares the parameter list of the generated action "
               "function with the user's grammar parameters (e.g. `grammar(%s: u32)` plus a `+`/`*` repetition binds `%s` twice: E0415)" % (v, v, v),
               key="synth-binding:%s:%s" % (l["fn"].split("::")[-1], v), file=l["file"], line=l["line"], fn=l["fn"])
    rep.floor("synthesised-name sites", n, 6)
    return rep
