"""C23 -- each grammar file maps to exactly one output at the documented path (clause: discovery and bookkeeping)."""
import json
import re

from . import core
from .core import callee_of, origins
from .report import Report
from .buildproto import Proto, identity_param

LEVEL = "other"
EXPLANATION = (
    "Structural rules on the MIR of lalrpop::build: (a) in gen_resolve_file the white-space test on the file name "
    "guards the Ok return (Ok is reachable only through its false edge) and the result is out_dir.join(file_name)"
    ".with_extension(ext) with ext = \"rs\" / \"report\" from the two wrappers; (b) the directory walker follows links, "
    "keeps only entries whose file_type().is_file() and whose extension equals \"lalrpop\", and routes walk errors "
    "through the dangling-symlink handler (skip when handled, propagate otherwise); (c) the rerun directive for a "
    "grammar is emitted before (not under) the rebuild gate, so directives name every processed file; (d) process_dir "
    "calls process_file once per discovered file and process_file calls the writer exactly once with the resolved "
    ".rs/.report paths of that same grammar. The path arithmetic over all directory trees (in_dir/out_dir/src "
    "stripping) is NOT decided.")


def run(tier):
    rep = Report("C23", LEVEL, tier)
    rep.explanation = EXPLANATION
    rep.not_decided = "the relative-path computation of gen_resolve_file over all trees and configurations; in_dir conflict checks in api"
    rep.trusted = ["rustc MIR", "walkdir semantics (follow_links, file_type)"]
    f = core.Facts(core.ensure_facts())
    p = Proto(f)
    w = p.w
    # ---- (a)
    g = f.one(r"^lalrpop::build::gen_resolve_file$")
    rel = g.relfile()
    ws = [(bi, t) for bi, t in g.calls() if (callee_of(t) or "").endswith("str::<impl str>::contains")]
    okws = False
    for bi, t in ws:
        pat = origins(g, t["args"][1])
        if not any(d[0] == "const" and "is_whitespace" in d[1] for d in pat):
            continue
        # switch on the result
        for sb, bl in enumerate(g.blocks):
            tt = bl["t"]
            if tt["k"] == "switch" and any(d[0] == "call" and d[2] == bi for d in origins(g, tt["o"])):
                false_t = [x for v, x in tt["targets"] if v == 0]
                oks = [b2 for b2, si, s in g.stmts() if s["k"] == "assign" and s["p"]["l"] == 0 and s["r"]["k"] == "agg" and s["r"].get("variant") == "Ok"]
                reach = g.reachable([0], removed_edges={(sb, x) for x in false_t})
                okws = bool(oks) and not (set(oks) & reach)
    rep.ob("resolve.whitespace-names-rejected", "gen_resolve_file: contains(char::is_whitespace) guards Ok", okws,
           "an Ok(path) is reachable for a file name containing white space", key="whitespace-check", file=rel, line=g.line, fn=g.path)
    # extension argument
    okext = False
    for b2, si, s in g.stmts():
        if s["k"] == "assign" and s["p"]["l"] == 0 and s["r"]["k"] == "agg" and s["r"].get("variant") == "Ok":
            o = origins(g, s["r"]["ops"][0], transparent=lambda c: None)
            for d in o:
                if d[0] == "call" and d[1].endswith("Path::with_extension"):
                    t = g.blocks[d[2]]["t"]
                    ext_from_param = identity_param(g, t["args"][1]) == 3
                    base = origins(g, t["args"][0], transparent=lambda c: [0] if c and c.endswith("::deref") else None)
                    joins = [x for x in base if x[0] == "call" and x[1].endswith("Path::join")]
                    joined = bool(joins)
                    # what is joined: the grammar's full file name (with_extension then replaces only `.lalrpop`)
                    comp_ok = False
                    for x in joins:
                        jt = g.blocks[x[2]]["t"]
                        comp = origins(g, jt["args"][1], transparent=lambda c: [0] if c and (c.endswith("::branch") or c.endswith("::ok_or_else") or c.endswith("::ok_or") or c.endswith("::unwrap") or c.endswith("::as_ref") or c.endswith("::deref")) else None)
                        cs = {y[1].split("::")[-1] for y in comp if y[0] == "call"}
                        comp_ok = cs == {"file_name"} and all(identity_param(g, g.blocks[y[2]]["t"]["args"][0]) == 2 for y in comp if y[0] == "call")
                    okext = ext_from_param and joined and comp_ok
    rep.ob("resolve.path-is-outdir-join-name-with-ext", "gen_resolve_file: Ok(out_dir.join(file_name).with_extension(ext))", okext,
           "the resolved path is not out_dir.join(<file name of the grammar>).with_extension(ext): e.g. joining the file stem makes `a.b.lalrpop` and `a.lalrpop` collide on `a.rs`", key="resolve-shape", file=rel, line=g.line, fn=g.path)
    exts = {}
    for name in ("resolve_rs_file", "resolve_report_file"):
        b = f.one(r"^lalrpop::build::%s$" % name)
        for bi, t in b.calls():
            if callee_of(t) == g.path:
                exts[name] = core.const_str(t["args"][2]) or [json.loads(d[1]).get("str") for d in origins(b, t["args"][2], facts=f) if d[0] == "const"]
    rep.ob("resolve.extensions", str(exts), exts.get("resolve_rs_file") in ("rs", ["rs"]) and exts.get("resolve_report_file") in ("report", ["report"]),
           "output extensions are not rs / report", key="resolve-ext", file=rel, line=g.line)
    # ---- (b)
    lf = f.one(r"^lalrpop::build::lalrpop_files$")
    lrel = lf.relfile()
    calls = {(callee_of(t) or ""): (bi, t) for bi, t in lf.calls()}
    fl = calls.get("walkdir::WalkDir::follow_links")
    rep.ob("walk.follows-links", "WalkDir::follow_links(true)", fl is not None and core.const_int(fl[1]["args"][1]) == 1,
           "the walk does not follow symlinks", key="walk-follow-links", file=lrel, line=lf.line, fn=lf.path)
    pushes = [bi for bi, t in lf.calls() if (callee_of(t) or "").endswith("Vec::<T, A>::push")]
    isf = [bi for bi, t in lf.calls() if (callee_of(t) or "").endswith("FileType::is_file")]
    ext = [(bi, t) for bi, t in lf.calls() if (callee_of(t) or "").endswith("Path::extension")]
    lit = [d for b2, t in lf.calls() for a in t["args"] for d in origins(lf, a, facts=f) if d[0] == "const" and json.loads(d[1]).get("str") == "lalrpop"]
    ok = bool(pushes) and len(isf) == 1 and len(ext) == 1 and bool(lit) and all(lf.dominates(isf[0], x) and lf.dominates(ext[0][0], x) for x in pushes)
    rep.ob("walk.only-regular-lalrpop-files", "push dominated by is_file() and extension()==\"lalrpop\"", ok,
           "a path can be collected without the is_file and `.lalrpop` extension tests", key="walk-filter", file=lrel, line=lf.line, fn=lf.path)
    hd = [(bi, t) for bi, t in lf.calls() if (callee_of(t) or "") == "lalrpop::build::handle_dangling_symlink_error"]
    okh = False
    if hd:
        bi, t = hd[0]
        o = origins(lf, t["args"][0])
        from_err = any("Err" in d[-1] for d in o if d[0] == "call")
        # its Result is branched on with `?`
        used = any((callee_of(tt) or "").endswith("Try>::branch") and any(d[0] == "call" and d[2] == bi for d in origins(lf, tt["args"][0], transparent=lambda c: None))
                   for _, tt in lf.calls())
        okh = from_err and used and not any(lf.dominates(bi, x) for x in pushes)
    rep.ob("walk.errors-go-through-symlink-handler", "handle_dangling_symlink_error(Err payload)?", okh,
           "walk errors are not routed through the dangling-symlink handler (or its verdict is ignored)", key="walk-errors", file=lrel, line=lf.line, fn=lf.path)
    # ---- (c)
    rr = [(bi, t) for bi, t in w.calls() if (callee_of(t) or "") == "lalrpop::session::Session::emit_rerun_directive"]
    ok = len(rr) == 1 and w.dominates(rr[0][0], p.gate_block) and identity_param(w, rr[0][1]["args"][1]) == p.X
    rep.ob("rerun.directive-for-every-processed-file", "emit_rerun_directive(grammar) dominates the rebuild gate", ok,
           "the rerun directive is emitted only when the file is rebuilt (or for another path): cargo would not watch up-to-date grammars",
           key="rerun-gated", file=w.relfile(), line=w.line, fn=w.path)
    # ---- (d)
    pf = f.one(r"^lalrpop::build::process_file$")
    cw = [(bi, t) for bi, t in pf.calls() if callee_of(t) == w.path]
    ok = len(cw) == 1
    if ok:
        t = cw[0][1]
        gram = origins(pf, t["args"][p.X - 1])
        rs = origins(pf, t["args"][p.Y - 1], transparent=lambda c: [0] if c and (c.endswith("::deref") or c.endswith("::branch")) else None)
        ok = any(d[0] == "arg" and d[1] == 2 for d in gram) and any(d[0] == "call" and d[1] == "lalrpop::build::resolve_rs_file" for d in rs)
        # the rs path is resolved from the same grammar path
        for bi2, t2 in pf.calls():
            if callee_of(t2) == "lalrpop::build::resolve_rs_file":
                ok = ok and any(d[0] == "arg" and d[1] == 2 for d in origins(pf, t2["args"][1]))
    rep.ob("one-output.process_file-calls-writer-once", "process_file -> %s(grammar, resolve_rs_file(grammar), ..)" % w.path.split("::")[-1], ok,
           "process_file does not call the output writer exactly once with the resolved path of the same grammar", key="process_file-shape",
           file=pf.relfile(), line=pf.line, fn=pf.path)
    pd = f.one(r"^lalrpop::build::process_dir$")
    cpf = [(bi, t) for bi, t in pd.calls() if callee_of(t) == pf.path]
    heads = {h for u, h in pd.back_edges()}
    ok = len(cpf) == 1 and any(cpf[0][0] in pd.loop_body(h) for h in heads)
    if ok:
        o = origins(pd, cpf[0][1]["args"][1])
        ok = any(d[0] == "call" and d[1].endswith("IntoIter<T, A> as std::iter::Iterator>::next") for d in o)
        src = [t for _, t in pd.calls() if (callee_of(t) or "") == "lalrpop::build::lalrpop_files"]
        ok = ok and len(src) == 1
    rep.ob("one-output.process_dir-visits-each-file-once", "process_dir: for f in lalrpop_files(root) { process_file(session, f)? }", ok,
           "process_dir does not process each discovered file exactly once", key="process_dir-shape", file=pd.relfile(), line=pd.line, fn=pd.path)
    return rep
