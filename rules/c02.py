"""C02 -- parse results are the grammar's actions evaluated over the derivation
(clause: children reach the action in left-to-right order)."""
import re

from . import core
from . import tmplutil as tu
from .core import callee_of, callee_args, origins
from .report import Report

LEVEL = "other"
EXPLANATION = (
    "What rustc's typing of the generated calls does NOT force is the ORDER in which the popped children are handed "
    "to an action when neighbouring symbols have the same type. Decided from MIR iterator types and templates: (1) the "
    "table-driven reduce pops the production's symbols in REVERSE (`symbols.iter().enumerate().rev()`), binding the "
    "i-th symbol to `sym<i>` with i the enumerate index, and passes `sym0..sym<n-1>` FORWARD ((0..n).map) as the last "
    "arguments of the action call; (2) the recursive-ascent backend names its arguments by a forward zip of stack "
    "positions and needed positions; (3) the action function binds its parameters `(_, <pattern>, _)` to the argument "
    "patterns zipped with the argument types in declaration order (no reversal on either side). Everything else in "
    "C02 (which action runs, default actions, `<>` selection, exactly-once evaluation) is NOT decided.")

BAD_ADAPTORS = ("rev", "skip", "step_by", "filter", "filter_map", "chain", "take", "skip_while", "take_while")


def iterator_adaptors(b, lo=None, hi=None):
    out = []
    for bi, t in b.calls():
        c = callee_of(t) or ""
        if lo is not None and not (lo <= t["ln"] <= hi):
            continue
        m = re.match(r"^std::iter::Iterator::(\w+)$", c)
        if m:
            out.append((m.group(1), callee_args(t), t["ln"], bi))
    return out


def run(tier):
    rep = Report("C02", LEVEL, tier)
    rep.explanation = EXPLANATION
    rep.not_decided = "that the value returned is the bottom-up evaluation of the unique derivation: choice of action per production, default actions, `<>`/named/tuple bindings, exactly-once post-order evaluation, side-effect order"
    rep.trusted = ["rustc MIR (iterator adaptor types)", "syn parse of the templates", "rustc type-checks the generated calls"]
    f = core.Facts(core.ensure_facts())
    T = f.tmpl
    # ---- (1) table-driven reduce
    b = f.one(r"parse_table::TableDriven<'grammar>>>::emit_reduce_action$")
    rel = b.relfile()
    pops = [m for m in T.macros if m["macro"] == "rust" and m["fmt"] and m["file"].endswith("lr1/codegen/parse_table.rs")
            and m["fn"].endswith("::emit_reduce_action") and re.search(r"let\s+·\w+·sym·\w+·\s*=\s*·\w+·pop_", tu.cooked(m["fmt"]))]
    if rep.floor("pop templates in the table-driven reduce", len(pops), 1):
        pm = pops[0]
        loops = [g for g in pm["guards"] if g["kind"] == "for"]
        # the loop's iterator type, from MIR: the `next` call of a loop whose header line is the for line
        nxt = [(bi, t) for bi, t in b.calls() if (callee_of(t) or "").endswith("Iterator>::next") and loops and t["ln"] == loops[-1]["line"]]
        ity = callee_args(nxt[0][1]) if nxt else ""
        ok = bool(re.search(r"std::iter::Rev<std::iter::Enumerate<std::slice::Iter<'\{erased\}, lalrpop::grammar::repr::Symbol>>>", ity))
        rep.ob("table.pops-in-reverse", "%s for %s : %s" % (tu.short(pm), loops[-1]["cond"] if loops else "?", ity[:90]), ok,
               "the symbols of the production are not popped last-to-first (the stack is LIFO): the children bound to sym0..symN are permuted",
               key="table-pop-order", file=pm["file"], line=pm["line"], fn=pm["fn"])
        # sym index = enumerate index
        idx = tu.arg_of(pm, "1")
        var = loops[-1]["pat"].strip("() ").split(",")[0].strip() if loops else None
        rep.ob("table.pop-binds-enumerate-index", "sym<%s> with loop pattern %s" % (idx, loops[-1]["pat"] if loops else "?"), idx is not None and idx.strip() == var,
               "the popped symbol is not named after its position in the production", key="table-pop-index", file=pm["file"], line=pm["line"], fn=pm["fn"])
    lets = [l for l in T.lets if l["file"].endswith("lr1/codegen/parse_table.rs") and l["fn"].endswith("::emit_reduce_action") and l["pat"].startswith("transfer_syms")]
    if rep.floor("transfer_syms binding", len(lets), 1):
        l = lets[0]
        ad = iterator_adaptors(b, l["line"], l["line"] + 3)
        names = [a[0] for a in ad]
        ok = "map" in names and not (set(names) & set(BAD_ADAPTORS)) and any("std::ops::Range<usize>" in a[1] for a in ad if a[0] == "map") and \
            re.search(r"\(\s*0\s*\.\.\s*production\s*\.\s*symbols\s*\.\s*len\s*\(\s*\)\s*\)", l["init"]) is not None
        rep.ob("table.arguments-in-forward-order", "%s:%d transfer_syms = %s [adaptors %s]" % (l["file"], l["line"], l["init"][:60], names), ok,
               "the action's arguments are not sym0..sym<n-1> in production order", key="table-arg-order", file=l["file"], line=l["line"], fn=l["fn"])
    calls = [m for m in T.macros if m["macro"] == "rust" and m["fmt"] and m["file"].endswith("lr1/codegen/parse_table.rs")
             and m["fn"].endswith("::emit_reduce_action") and "action" in tu.cooked(m["fmt"]) and "::<" in tu.cooked(m["fmt"])]
    for m in calls:
        last = m["args"][-1]["expr"].replace(" ", "") if m["args"] else ""
        rep.ob("table.action-call-passes-args", "%s `%s`" % (tu.short(m), tu.cooked(m["fmt"]).strip()[:70]), last == 'Sep(",",&args)' and tu.cooked(m["fmt"]).rstrip().rstrip("{;").rstrip().endswith("·6·)"),
               "the action call does not end with the popped symbols", key="table-action-call", file=m["file"], line=m["line"], fn=m["fn"])
    rep.floor("action call templates (fallible + infallible)", len(calls), 2)
    # ---- (2) ascent
    ps = f.one(r"ascent::RecursiveAscent<'ascent, 'grammar>>>::pop_syms$")
    ad = iterator_adaptors(ps)
    names = [a[0] for a in ad]
    ok = names[:1] == ["zip"] and not (set(names) & set(BAD_ADAPTORS)) and any(a[0] == "zip" and a[1].count("std::ops::Range<usize>") == 2 for a in ad)
    rep.ob("ascent.arguments-in-forward-order", "pop_syms adaptors %s" % names, ok,
           "the recursive-ascent backend does not name the popped symbols by a forward zip of stack and production positions",
           key="ascent-arg-order", file=ps.relfile(), line=ps.line, fn=ps.path)
    # ---- (3) action function parameters
    ua = f.one(r"^lalrpop::build::action::emit_user_action_code$")
    ad = iterator_adaptors(ua, ua.line, ua.line + 30)
    names = [a[0] for a in ad]
    ok = "zip" in names and not (set(names) & set(BAD_ADAPTORS)) and any(a[0] == "zip" and "ArgPattern" in a[1] and "TypeRepr" in a[1] for a in ad)
    rep.ob("action.parameters-in-declaration-order", "emit_user_action_code adaptors %s" % names, ok,
           "the action function's parameters are not the argument patterns zipped with their types in order", key="action-param-order",
           file=ua.relfile(), line=ua.line, fn=ua.path)
    fm = [m for m in T.macros if m["macro"] == "format" and m["file"].endswith("build/action.rs") and m["fn"].endswith("emit_user_action_code") and m["fmt"] and "_" in m["fmt"]]
    ok = any(m["fmt"] == "(_, {name}, _): {ty}" for m in fm)
    rep.ob("action.binds-the-value-of-the-triple", "parameter template %s" % [m["fmt"] for m in fm], ok,
           "an action parameter does not bind the middle (value) component of the (start, value, end) triple", key="action-param-shape",
           file="lalrpop/src/build/action.rs", line=fm[0]["line"] if fm else 0)
    return rep
