"""C13 -- macros, repetitions and conditional alternatives expand by substitution
(clause: the expansion cache keys are distinguishable)."""
import re

from . import core, symex
from . import tmplutil as tu
from .report import Report

LEVEL = "other"
EXPLANATION = (
    "Macro/repeat/group expansions are memoised under `canonical_form()`, i.e. the Display rendering of the "
    "SymbolKind. Two different symbols with the same rendering share one expansion ('distinct instantiations never "
    "interfere' is broken). Rule over the arms of `impl Display for SymbolKind` (syntax tree): an arm that prints a "
    "fixed literal lexing as an identifier collides with the nonterminal (or bare terminal) of that spelling; every "
    "other arm must either print exactly one component (delegation) or contain a character that cannot occur in an "
    "identifier. Also: every cache key in macro_expand is built from canonical_form(). Language/value equivalence of "
    "the expansion is NOT decided.")

IDENT = re.compile(r"^[A-Za-z_][A-Za-z0-9_]*$")


def run(tier):
    rep = Report("C13", LEVEL, tier)
    rep.explanation = EXPLANATION
    rep.not_decided = "that the expansion has the same language and values as the substituted grammar; condition evaluation"
    rep.trusted = ["syn parse of grammar/parse_tree.rs"]
    f = core.Facts(core.ensure_facts())
    T = f.tmpl
    arms = [m for m in T.macros if m["macro"] == "write" and m["file"].endswith("grammar/parse_tree.rs")
            and re.search(r"<SymbolKind\s*as\s*Display>::fmt$", m["fn"])]
    if not rep.floor("arms of impl Display for SymbolKind", len(arms), 12):
        return rep
    # exhaustive: one arm per variant
    adt = f.adts.get("lalrpop::grammar::parse_tree::SymbolKind")
    variants = [v["name"] for v in adt["variants"]] if adt else []
    seen = set()
    for m in arms:
        pat = ""
        for g in m["guards"]:
            if g["kind"] == "match":
                pat = g["pat"]
        vn = re.search(r"SymbolKind\s*::\s*(\w+)", pat)
        vn = vn.group(1) if vn else "?"
        seen.add(vn)
        segs = tu.segments(m["fmt"] or "")
        lits = "".join(s[1] for s in segs if s[0] == "lit")
        phs = [s for s in segs if s[0] == "ph"]
        if not phs:
            ok = not IDENT.match(lits)
            rep.ob("display-arm.distinguishable", "SymbolKind::%s => %r" % (vn, m["fmt"]), ok,
                   "SymbolKind::%s is rendered as the bare identifier %r: in the expansion cache `M<%s>` applied to this symbol "
                   "and `M<%s>` applied to a nonterminal named `%s` get the same key and share one expansion" % (vn, lits, lits, lits, lits),
                   key="display-collision:SymbolKind::%s" % vn, file=m["file"], line=m["line"], fn=m["fn"])
        elif len(phs) == 1 and lits == "":
            rep.ob("display-arm.delegates", "SymbolKind::%s => %r" % (vn, m["fmt"]), True)
        else:
            ok = re.search(r"[^A-Za-z0-9_\s]", lits) is not None
            rep.ob("display-arm.distinguishable", "SymbolKind::%s => %r" % (vn, m["fmt"]), ok,
                   "composite rendering without a non-identifier character", key="display-ambiguous:SymbolKind::%s" % vn,
                   file=m["file"], line=m["line"], fn=m["fn"])
        rep.sample({"variant": vn, "renders": m["fmt"]})
    if variants:
        rep.ob("display-arms.cover-all-variants", "variants=%d arms=%d" % (len(variants), len(seen)), set(variants) <= seen,
               "variants without a dedicated arm: %s" % sorted(set(variants) - seen), key="display-arms-missing")
    condition_rules(rep, f)
    component_display_rules(rep, T)
    # cache keys come from canonical_form()
    keys = [l for l in T.lets if l["file"].endswith("normalize/macro_expand/mod.rs") and re.search(r"NonterminalString\s*\(\s*Atom\s*::\s*from", l["init"])]
    rep.floor("expansion cache keys in macro_expand", len(keys), 4)
    for l in keys:
        # a bare identifier argument is a name handed down by the caller (e.g. "@L"), not a new key
        ok = "canonical_form" in l["init"] or re.fullmatch(r"NonterminalString\s*\(\s*Atom\s*::\s*from\s*\(\s*\w+\s*\)\s*\)", l["init"].strip()) is not None
        rep.ob("cache-key.is-canonical-form", "%s:%d let %s = %s" % (l["file"], l["line"], l["pat"], l["init"][:70]), ok,
               "an expansion is named/cached by something other than canonical_form()", key="cache-key:%s" % l["fn"].split("::")[-1],
               file=l["file"], line=l["line"], fn=l["fn"])
    return rep


def condition_rules(rep, f):
    """`if` conditions of macro alternatives: == / != / ~~ / !~ evaluated as equality, its negation, regex match, its
    negation, on the macro argument named by the condition's left-hand side; no condition => alternative kept."""
    b = f.one(r"MacroExpander::evaluate_cond$")
    ops = [v["name"] for v in f.adts["lalrpop::grammar::parse_tree::ConditionOp"]["variants"]]
    seen = {}
    none_ok = False
    for r in symex.term_eval(f, b, inline=lambda p: False):
        v = r[0]
        op = [val for _, t, val in r.pc if symex.show_term(t).endswith(".op)") and isinstance(val, int)]
        if not r.pc or (len(r.pc) == 1 and not op and v and v[0] == "adt" and v[1].endswith("::Ok") and v[3] == (("c", 1),)):
            none_ok = none_ok or (v and v[0] == "adt" and v[1].endswith("::Ok") and v[3] == (("c", 1),))
            continue
        if not op:
            continue
        name = ops[op[0]]
        sh = symex.show_term(v)
        uses_args = "index(arg2, (arg3 as Some).0.lhs)" in sh and ".rhs" in sh
        if name == "Equals":
            ok = v[0] == "adt" and v[1].endswith("::Ok") and "::eq(" in sh and "op:Not" not in sh and uses_args
        elif name == "NotEquals":
            ok = v[0] == "adt" and v[1].endswith("::Ok") and ("::ne(" in sh or ("op:Not" in sh and "::eq(" in sh)) and uses_args
        elif name == "Match":
            ok = "re_match(" in sh and "op:Not" not in sh and uses_args
        else:
            if "from_residual" in sh:
                continue        # error propagation path of `?`
            ok = "re_match(" in sh and "op:Not" in sh and uses_args
        seen[name] = seen.get(name, True) and ok
    for name in ops:
        rep.ob("condition.%s" % name, "evaluate_cond: %s" % name, seen.get(name) is True,
               "the macro condition operator %s is not evaluated as documented (==, !=, ~~ regex match, !~ its negation) on the argument bound to the left-hand side" % name,
               key="cond:%s" % name, file=b.relfile(), line=b.line, fn=b.path)
    rm = f.one(r"MacroExpander::re_match$")
    oks = [r[0] for r in symex.term_eval(f, rm, inline=lambda p: False) if r[0] and r[0][0] == "adt" and r[0][1].endswith("::Ok")]
    shape = [symex.show_term(v) for v in oks]
    good = bool(oks) and all(re.fullmatch(r"Ok\{regex::Regex::is_match\(\(regex::Regex::new\(.*deref\(arg4\)\) as Ok\)\.0, .*deref\(arg3\)\)\}", x) for x in shape)
    rep.ob("condition.regex-match-is-unanchored-search", "re_match -> %s" % [x[:90] for x in shape], good,
           "`~~` is not evaluated as Regex::new(pattern).is_match(argument) on every successful path (e.g. a literal fast path turns the "
           "unanchored search into an equality test)", key="cond:re_match", file=rm.relfile(), line=rm.line, fn=rm.path)
    rep.ob("condition.absent-keeps-alternative", "evaluate_cond: no condition -> Ok(true)", bool(none_ok),
           "an alternative without a condition is not kept", key="cond:none", file=b.relfile(), line=b.line, fn=b.path)


def component_display_rules(rep, T):
    """the renderings that canonical forms are built from keep every component: Name<args..>, symbol+op, (symbols..),
    and the three repeat operators print distinct characters"""
    def arms(ty):
        return [m for m in T.macros if m["macro"] == "write" and m["file"].endswith("grammar/parse_tree.rs")
                and re.search(r"<%s\s*as\s*Display>::fmt$" % ty, m["fn"])]
    ms = arms("MacroSymbol")
    ok = len(ms) == 1 and re.fullmatch(r"\{\}<\{\}>", ms[0]["fmt"] or "") is not None and \
        [a["expr"].replace(" ", "") for a in ms[0]["args"]] == ["self.name", 'Sep(",",&self.args)']
    rep.ob("components.macro-symbol", "MacroSymbol => %r %s" % (ms[0]["fmt"] if ms else None, [a["expr"] for a in ms[0]["args"]] if ms else ""), ok,
           "the canonical form of a macro use does not consist of its name and all of its arguments", key="display:MacroSymbol",
           file="lalrpop/src/grammar/parse_tree.rs", line=ms[0]["line"] if ms else 0)
    ms = arms("RepeatSymbol")
    ok = len(ms) == 1 and (ms[0]["fmt"] or "") == "{}{}" and [a["expr"].replace(" ", "") for a in ms[0]["args"]] == ["self.symbol", "self.op"]
    rep.ob("components.repeat-symbol", "RepeatSymbol => %r" % (ms[0]["fmt"] if ms else None), ok,
           "the canonical form of a repetition does not consist of its symbol and operator", key="display:RepeatSymbol",
           file="lalrpop/src/grammar/parse_tree.rs", line=ms[0]["line"] if ms else 0)
    ms = arms("ExprSymbol")
    ok = len(ms) == 1 and (ms[0]["fmt"] or "") == "({})" and [a["expr"].replace(" ", "") for a in ms[0]["args"]] == ['Sep("",&self.symbols)'.replace('""', '" "')] or \
        (len(ms) == 1 and (ms[0]["fmt"] or "") == "({})" and "self.symbols" in ms[0]["args"][0]["expr"].replace(" ", ""))
    rep.ob("components.expr-symbol", "ExprSymbol => %r" % (ms[0]["fmt"] if ms else None), ok,
           "the canonical form of a group does not list all of its symbols in parentheses", key="display:ExprSymbol",
           file="lalrpop/src/grammar/parse_tree.rs", line=ms[0]["line"] if ms else 0)
    ms = arms("RepeatOp")
    lits = sorted(m["fmt"] for m in ms)
    rep.ob("components.repeat-ops-distinct", "RepeatOp => %s" % lits, len(lits) == 3 and len(set(lits)) == 3 and all(len(x) == 1 and not x.isalnum() for x in lits),
           "two repeat operators render identically: X* and X+ (or X?) would share one expansion", key="display:RepeatOp",
           file="lalrpop/src/grammar/parse_tree.rs", line=ms[0]["line"] if ms else 0)
