"""C13 -- macros, repetitions and conditional alternatives expand by substitution
(clause: the expansion cache keys are distinguishable)."""
import re

from . import core
from . import tmplutil as tu
from .report import Report

LEVEL = "other"
EXPLANATION = (
    "Macro/repeat/group expansions are memoised under `canonical_form()`, i.e. the Display rendering of the "
    "SymbolKind. Two different symbols with the same rendering share one expansion ('distinct instantiations never "
    "interfere' is broken). Rule over the arms of `impl Display for SymbolKind` (syntax tree): an arm that prints a "
    "fixed literal lexing as an identifier collides with the nonterminal (or bare terminal) of that spelling; every "
    "other arm must either print exactly one component (delegation) or contain a character that cannot occur in an "
    "identifier. Also: every cache key in macro_expand is built from canonical_form(). Language/value equivalence of "
    "the expansion is NOT decided.")

IDENT = re.compile(r"^[A-Za-z_][A-Za-z0-9_]*$")


def run(tier):
    rep = Report("C13", LEVEL, tier)
    rep.explanation = EXPLANATION
    rep.not_decided = "that the expansion has the same language and values as the substituted grammar; condition evaluation"
    rep.trusted = ["syn parse of grammar/parse_tree.rs"]
    f = core.Facts(core.ensure_facts())
    T = f.tmpl
    arms = [m for m in T.macros if m["macro"] == "write" and m["file"].endswith("grammar/parse_tree.rs")
            and re.search(r"<SymbolKind\s*as\s*Display>::fmt$", m["fn"])]
    if not rep.floor("arms of impl Display for SymbolKind", len(arms), 12):
        return rep
    # exhaustive: one arm per variant
    adt = f.adts.get("lalrpop::grammar::parse_tree::SymbolKind")
    variants = [v["name"] for v in adt["variants"]] if adt else []
    seen = set()
    for m in arms:
        pat = ""
        for g in m["guards"]:
            if g["kind"] == "match":
                pat = g["pat"]
        vn = re.search(r"SymbolKind\s*::\s*(\w+)", pat)
        vn = vn.group(1) if vn else "?"
        seen.add(vn)
        segs = tu.segments(m["fmt"] or "")
        lits = "".join(s[1] for s in segs if s[0] == "lit")
        phs = [s for s in segs if s[0] == "ph"]
        if not phs:
            ok = not IDENT.match(lits)
            rep.ob("display-arm.distinguishable", "SymbolKind::%s => %r" % (vn, m["fmt"]), ok,
                   "SymbolKind::%s is rendered as the bare identifier %r: in the expansion cache `M<%s>` applied to this symbol "
                   "and `M<%s>` applied to a nonterminal named `%s` get the same key and share one expansion" % (vn, lits, lits, lits, lits),
                   key="display-collision:SymbolKind::%s" % vn, file=m["file"], line=m["line"], fn=m["fn"])
        elif len(phs) == 1 and lits == "":
            rep.ob("display-arm.delegates", "SymbolKind::%s => %r" % (vn, m["fmt"]), True)
        else:
            ok = re.search(r"[^A-Za-z0-9_\s]", lits) is not None
            rep.ob("display-arm.distinguishable", "SymbolKind::%s => %r" % (vn, m["fmt"]), ok,
                   "composite rendering without a non-identifier character", key="display-ambiguous:SymbolKind::%s" % vn,
                   file=m["file"], line=m["line"], fn=m["fn"])
        rep.sample({"variant": vn, "renders": m["fmt"]})
    if variants:
        rep.ob("display-arms.cover-all-variants", "variants=%d arms=%d" % (len(variants), len(seen)), set(variants) <= seen,
               "variants without a dedicated arm: %s" % sorted(set(variants) - seen), key="display-arms-missing")
    # cache keys come from canonical_form()
    keys = [l for l in T.lets if l["file"].endswith("normalize/macro_expand/mod.rs") and re.search(r"NonterminalString\s*\(\s*Atom\s*::\s*from", l["init"])]
    rep.floor("expansion cache keys in macro_expand", len(keys), 4)
    for l in keys:
        # a bare identifier argument is a name handed down by the caller (e.g. "@L"), not a new key
        ok = "canonical_form" in l["init"] or re.fullmatch(r"NonterminalString\s*\(\s*Atom\s*::\s*from\s*\(\s*\w+\s*\)\s*\)", l["init"].strip()) is not None
        rep.ob("cache-key.is-canonical-form", "%s:%d let %s = %s" % (l["file"], l["line"], l["pat"], l["init"][:70]), ok,
               "an expansion is named/cached by something other than canonical_form()", key="cache-key:%s" % l["fn"].split("::")[-1],
               file=l["file"], line=l["line"], fn=l["fn"])
    return rep
