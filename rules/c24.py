"""C24 -- formatting options do not change the generated program."""
import re

from . import core
from . import tmplutil as tu
from .core import callee_of, callee_args
from .report import Report

LEVEL = "proof"
EXPLANATION = (
    "Whole property at template level. (1) rustc facts: every read of Session.emit_comments / emit_whitespace / "
    "emit_report happens in a function whose syntax tree has a guard on that flag, and the value read flows only "
    "into branch conditions (never into an emission). (2) Every emission under an emit_comments guard is a "
    "comment: its template starts with `//`, or it prints a value whose Display impl has only arms starting with "
    "` //` (single line); where the guard has an else branch the two branches emit the same token skeleton once "
    "comment placeholders and white space are removed. (3) Every emission under an emit_whitespace guard is white "
    "space only. (4) Nothing under the emit_report guard writes to the module buffer. Hence the three flags can "
    "only add or remove comments and white space: the Rust token stream is unchanged.")

FLAGS = ("emit_comments", "emit_whitespace", "emit_report")
WRITERS = ("rust", "write", "writeln")


def comment_only_types(T):
    """names (as printed in impl headers) of types whose Display impl only ever writes ` // ...` on one line"""
    by_impl = {}
    for m in T.macros:
        mm = re.search(r"<(.+?)\s*as\s*(?:fmt::|std::fmt::)?Display>::fmt$", m["fn"])
        if mm and m["macro"] in ("write", "writeln"):
            by_impl.setdefault(mm.group(1), []).append(m)
    out = {}
    for ty, ms in by_impl.items():
        ok = all(m["fmt"] is not None and re.match(r"^\s*//", tu.cooked(m["fmt"])) and "\n" not in m["fmt"] and m["macro"] == "write" for m in ms)
        if ok:
            out[re.sub(r"<.*", "", ty)] = len(ms)
    return out


def aliases(T, file, fn):
    """flag -> set of local names holding it in this fn"""
    out = {f: {f} for f in FLAGS}
    for l in T.lets:
        if l["file"] == file and l["fn"] == fn:
            for f in FLAGS:
                if re.search(r"\.\s*%s\s*$" % f, l["init"].strip()) and re.fullmatch(r"\w+", l["pat"].strip()):
                    out[f].add(l["pat"].strip())
    return out


def guard_flags(m, T):
    """[(flag, side, guard)] for the guards of an emission that test a formatting flag"""
    al = aliases(T, m["file"], m["fn"])
    res = []
    for g in m["guards"]:
        if g["kind"] not in ("if", "else"):
            continue
        for f in FLAGS:
            for name in al[f]:
                if re.search(r"(^|[^\w])%s\b" % re.escape(name), g["cond"]):
                    neg = re.search(r"!\s*([\w\s.():]*\.\s*)?%s\b" % re.escape(name), g["cond"]) is not None
                    side = "on" if (g["kind"] == "if") != neg else "off"
                    res.append((f, side, g))
                    break
    return res


def run(tier):
    rep = Report("C24", LEVEL, tier)
    rep.explanation = EXPLANATION
    rep.not_decided = "nothing beyond the listed assumptions"
    rep.assumptions = ["values formatted into comment lines (items, productions, symbols, token sets via Debug/Display) render on a single line",
                       "all emission goes through rust!/write!/writeln! on the RustWrite buffer (checked: RustWrite's own methods are the only other writers)"]
    rep.trusted = ["rustc MIR (field reads resolved by type)", "syn guard stacks (tmplfacts)"]
    f = core.Facts(core.ensure_facts())
    T = f.tmpl
    cot = comment_only_types(T)
    rep.analysed["comment_only_display_types"] = cot
    rep.floor("comment-only Display types (positive control)", len(cot), 1)

    # ---------- (1) reads of the flags
    reads = []
    for p, b in f.bodies.items():
        if b.unit != "lalrpop-lib" or b.kind == "promoted":
            continue
        if p.startswith("<lalrpop::session::Session as ") or p.startswith("lalrpop::session::Session::") or p.startswith("lalrpop::api::"):
            continue   # derive(Clone) / constructors / setters
        for bi, si, s in b.stmts():
            if s["k"] != "assign":
                continue
            r = s["r"]
            pl = r["o"]["p"] if r["k"] in ("use", "cast") and r["o"]["k"] != "const" else (r["p"] if r["k"] in ("ref", "copyforderef") else None)
            if pl is None:
                continue
            for e in pl["pr"]:
                if e[0] == "field" and e[2] in FLAGS and e[3] == "lalrpop::session::Session":
                    reads.append((b, bi, s, e[2]))
    rep.floor("reads of the formatting flags", len(reads), 8)
    guard_fns = {}
    for m in T.macros + T.other:
        for fl, side, g in guard_flags(m, T):
            guard_fns.setdefault((m["file"], m["fn"].split("::")[-1]), set()).add(fl)
    # the report guard has no macro inside: find it among `let`/if conditions by E1 below
    for b, bi, s, fl in reads:
        short = b.path.split("::")[-1]
        has_guard = any(k[1] == short and fl in v for k, v in guard_fns.items()) or fl == "emit_report"
        tl, sinks, esc = core.taint(b, {s["p"]["l"]})
        sinks = [x for x in sinks if not (x[1] or "").endswith("::deref")]
        ok = has_guard and not sinks and not esc
        rep.ob("flag-read.only-branches", "%s reads %s at %s:%d" % (short, fl, b.relfile(), s["ln"]), ok,
               ("the value of %s flows into %s" % (fl, [x[1] for x in sinks][:3])) if sinks or esc else
               "function reads %s but no guard on it was found in its syntax tree (flag escapes the analysed guards)" % fl,
               key="flag-escapes:%s:%s" % (short, fl), file=b.relfile(), line=s["ln"], fn=b.path)

    # ---------- (1b) every buffer write that is control-dependent on a flag must be one of the analysed macro sites
    macro_lines = {}
    for m in T.macros:
        if m["macro"] in WRITERS:
            for ln in range(m["line"], m["end_line"] + 1):
                macro_lines.setdefault(m["file"].split("lalrpop/src/")[-1], set()).add(ln)
    n_dep = 0
    for b, bi, s, fl in reads:
        tl, _, _ = core.taint(b, {s["p"]["l"]})
        for sb, bl in enumerate(b.blocks):
            t = bl["t"]
            if t["k"] != "switch" or not (set(core.operand_locals(t["o"])) & tl):
                continue
            succs = list(dict.fromkeys(b.succ[sb]))
            if len(succs) < 2:
                continue
            reach = [b.reachable([x]) for x in succs]
            for i, r in enumerate(reach):
                others = set().union(*[reach[j] for j in range(len(reach)) if j != i])
                for blk in r - others:
                    tt = b.blocks[blk]["t"]
                    if tt["k"] != "call" or b.blocks[blk]["cleanup"]:
                        continue
                    c = core.callee_decl(tt) or ""
                    if re.search(r"^std::io::Write::(write|write_all|write_fmt|write_vectored)$|RustWrite::<W>::(write_fmt|write_table_row|fn_header)$", c) or \
                            re.search(r"as std::io::Write>::(write|write_all|write_fmt)$", core.callee_of(tt) or ""):
                        n_dep += 1
                        relf = b.relfile().split("lalrpop/src/")[-1]
                        ok = tt["ln"] in macro_lines.get(relf, set())
                        rep.ob("flag-dependent-write.is-an-analysed-site", "%s:%d %s under %s" % (b.relfile(), tt["ln"], c.split("::")[-1], fl), ok,
                               "a direct write to the output buffer (not a rust!/write!/writeln! site) is control-dependent on %s: its content is not covered by the comment/white-space rules" % fl,
                               key="raw-write-under-flag:%s:%s" % (b.path.split("::")[-1], fl), file=b.relfile(), line=tt["ln"], fn=b.path)
    rep.analysed["flag_dependent_writes"] = n_dep

    # ---------- (2)(3) guarded emissions
    n_guarded = 0
    groups = {}
    for m in T.macros:
        if m["macro"] not in WRITERS or m["fmt"] is None and m["macro"] != "rust":
            continue
        gf = guard_flags(m, T)
        if not gf:
            continue
        n_guarded += 1
        c = tu.cooked(m["fmt"] or "")
        segs = tu.segments(m["fmt"] or "")
        where = "%s `%s`" % (tu.short(m), c.strip()[:60])
        for fl, side, g in gf:
            groups.setdefault((g["id"], fl), []).append((side, m))
        flags_on = {fl for fl, side, g in gf if side == "on"}
        flags_off = {fl for fl, side, g in gf if side == "off"}
        # an emission that only happens when white space / the report is switched OFF must itself be white space
        for fl in flags_off & {"emit_whitespace", "emit_report"}:
            lit = tu.skeleton(m["fmt"] or "")
            ok = lit.strip() == "" and not [s for s in segs if s[0] == "ph"] and m["macro"] != "rust"
            rep.ob("off-side.emits-only-whitespace", where + " (only when %s is off)" % fl, ok,
                   "text is emitted only when %s is off: the token stream depends on the option" % fl,
                   key="off-side:%s:%s" % (fl, m["fn"].split("::")[-1]), file=m["file"], line=m["line"], fn=m["fn"])
        if "emit_report" in flags_on:
            rep.violation("report.writes-nothing-to-module", where, "an emission to the module buffer under the emit_report guard",
                          key="report-leak:%s" % m["fn"].split("::")[-1], file=m["file"], line=m["line"], fn=m["fn"])
        if "emit_whitespace" in flags_on:
            lit = tu.skeleton(m["fmt"] or "")
            args_ws = all((tu.arg_of(m, s[1]) or "").strip() in ('""', '" "', "self . indent") or s[2].endswith("$") for s in segs if s[0] == "ph")
            # `{0:1$}` prints arg0 padded to width arg1: whitespace iff arg0 is "" / " "
            first = [tu.arg_of(m, s[1]) for s in segs if s[0] == "ph"]
            ok = lit.strip() == "" and all((a or "").strip() in ('""', '" "') for a in first[:1]) and m["macro"] != "writeln"
            rep.ob("whitespace-guard.emits-only-whitespace", where, ok,
                   "an emission under the emit_whitespace guard can print non-white-space (%r, args %s)" % (m["fmt"], first),
                   key="whitespace-guard:%s" % m["fn"].split("::")[-1], file=m["file"], line=m["line"], fn=m["fn"])
            continue
        if "emit_comments" in flags_on:
            has_else = any(s == "off" for s, mm in groups.get((next(g["id"] for fl, side, g in gf if fl == "emit_comments"), "emit_comments"), [])) or \
                _has_else_branch(T, m, gf)
            if re.match(r"^\s*//", c) and "\n" not in (m["fmt"] or ""):
                rep.ob("comments-guard.emits-a-comment", where, True)
            elif not has_else and re.fullmatch(r"\s*·\w+·\s*", c):
                # prints one value: its type must be comment-only (resolved through MIR at this line)
                tys = display_types_at(f, m)
                ok = bool(tys) and all(re.sub(r"<.*", "", t.split("::")[-1]) in cot for t in tys)
                rep.ob("comments-guard.emits-a-comment", where + " : %s" % sorted(tys), ok,
                       "prints a value of type %s whose Display output is not known to be a `//` comment" % sorted(tys),
                       key="comments-guard:%s:display" % m["fn"].split("::")[-1], file=m["file"], line=m["line"], fn=m["fn"])
            elif has_else:
                pass   # compared with the else branch below
            else:
                rep.violation("comments-guard.emits-a-comment", where,
                              "a non-comment line is emitted only when emit_comments is on: the token stream of the output changes",
                              key="comments-guard:%s:%s" % (m["fn"].split("::")[-1], re.sub(r"\W+", "_", c.strip())[:24]),
                              file=m["file"], line=m["line"], fn=m["fn"])
    rep.floor("emissions under a formatting-flag guard", n_guarded, 20)
    # then/else agreement for emit_comments guards with an else branch
    for (gid, fl), lst in groups.items():
        if fl != "emit_comments":
            continue
        on = [m for s, m in lst if s == "on"]
        off = [m for s, m in lst if s == "off"]
        if not off:
            continue
        def skel(ms):
            out = []
            for m in ms:
                if any(x[0] == "emit_whitespace" and x[1] == "on" for x in guard_flags(m, T)):
                    continue
                segs = tu.segments(m["fmt"] or "")
                s = ""
                for sg in segs:
                    if sg[0] == "lit":
                        s += sg[1]
                    else:
                        a = tu.arg_of(m, sg[1]) or sg[1]
                        if is_comment_arg(f, m, sg[1], cot):
                            continue
                        s += "{%s}" % re.sub(r"\s+", "", a)
                s = re.sub(r"\s+", "", s)
                if s:
                    out.append(s)
            return sorted(set(out))
        a, b = skel(on), skel(off)
        rep.ob("comments-guard.branches-agree", "guard#%d then=%s else=%s" % (gid, a, b), a == b,
               "with emit_comments on the row prints %s, with it off %s: the two differ in more than comments and white space" % (a, b),
               key="comments-branches:%s" % on[0]["fn"].split("::")[-1] if on else "comments-branches", file=(on or off)[0]["file"],
               line=(on or off)[0]["line"], fn=(on or off)[0]["fn"])
    # the generic comment parameter of write_table_row is always instantiated with a comment-only type
    inst = set()
    for b in f.bodies.values():
        for bi, t in b.calls():
            if (callee_of(t) or "").endswith("RustWrite::<W>::write_table_row"):
                a = core.split_generic_args(callee_args(t))
                if a:
                    inst.add(a[-1])
    for t in sorted(inst):
        name = re.sub(r"<.*", "", t).split("::")[-1]
        if re.fullmatch(r"C(/#\d+)?", t):
            continue   # the generic body itself
        rep.ob("comments-guard.row-comment-type", "write_table_row::<.., %s>" % t, name in cot,
               "write_table_row is instantiated with a comment type whose Display is not a `//` comment", key="row-comment-type:%s" % name)
    rep.floor("instantiations of write_table_row", len(inst), 1)

    # ---------- (4) report guard in MIR: the module buffer is not touched under it
    era = f.one(r"^lalrpop::build::emit_recursive_ascent$")
    rw = [i for i, l in enumerate(era.locals) if l["ty"].startswith("lalrpop::rust::RustWrite<")]
    region = None
    for bi, bl in enumerate(era.blocks):
        t = bl["t"]
        if t["k"] == "switch":
            for d in core.origins(era, t["o"]):
                if d[0] in ("arg", "call") and "emit_report" in d[-1]:
                    region = era.reachable([t["otherwise"]]) - era.reachable([x for v, x in t["targets"] if v == 0])
    if region is None:
        rep.anchor_missing("branch on Session.emit_report in emit_recursive_ascent")
    else:
        bad = []
        for bi in region:
            t = era.blocks[bi]["t"]
            if t["k"] == "call":
                for a in t["args"]:
                    if core.slice_locals(era, [a]) & set(rw):
                        bad.append(callee_of(t))
        rep.ob("report.writes-nothing-to-module", "emit_recursive_ascent: %d blocks only reachable when emit_report" % len(region), not bad,
               "under emit_report the module buffer is passed to %s" % bad, key="report-leak:mir", file=era.relfile(), line=era.line, fn=era.path)
    return rep


def _has_else_branch(T, m, gf):
    ids = {g["id"] for fl, side, g in gf if fl == "emit_comments"}
    for o in T.macros:
        if o["file"] == m["file"] and any(g["id"] in ids and g["kind"] == "else" for g in o["guards"]):
            return True
    return False


def display_types_at(f, m):
    """types passed to Argument::new_display at the source line of template m (from MIR)"""
    tys = set()
    for b in f.bodies.values():
        if b.unit != "lalrpop-lib" or not b.relfile().endswith(m["file"].split("lalrpop/src/")[-1]):
            continue
        if not (b.line <= m["line"] <= b.end_line):
            continue
        for bi, t in b.calls():
            if (callee_of(t) or "").startswith("core::fmt::rt::Argument::<'_>::new_display") and m["line"] <= t["ln"] <= m["end_line"]:
                for a in core.split_generic_args(callee_args(t)):
                    if not a.startswith("'"):
                        tys.add(re.sub(r"^&'?\S*\s*", "", a) if a.startswith("&") else a)
    return tys


def is_comment_arg(f, m, ph, cot):
    """is placeholder `ph` of template m bound to a value that renders as a comment?"""
    a = tu.arg_of(m, ph) or ph
    return re.fullmatch(r"_?comment", a.strip()) is not None
