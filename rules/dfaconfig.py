"""Who-may-configure rule for the runtime lexer's lazy DFA (shared by C08 and C10).

lalrpop_util::lexer::Matcher memoises LazyStateIDs across steps (`start`, the last match state) and unwraps the result of
`next_state`. Both are valid only while the transition cache is never cleared behind the matcher's back and the DFA never
"gives up": the builder must leave the cache policy of regex-automata at its defaults."""
import re

from . import core

DENY = {
    "cache_capacity": "a smaller transition cache is cleared during a parse; the state ids the Matcher keeps (`start`, last match) then name other states",
    "skip_cache_capacity_check": "lets the DFA run with a cache below what it needs; it is cleared constantly",
    "minimum_cache_clear_count": "makes next_state return Err(gave up) after n cache clears; the Matcher unwraps that result",
    "minimum_bytes_per_state": "part of the give-up policy: next_state returns Err, which the Matcher unwraps",
}
DEFAULT_CAPACITY = 2 * (1 << 20)


def check(rep, f, key_prefix, consequence):
    n = 0
    for p, b in f.bodies.items():
        if not p.startswith("lalrpop_util::lexer::") or b.kind == "promoted":
            continue
        for bi, t in b.calls():
            c = core.callee_of(t) or ""
            m = re.search(r"regex_automata::hybrid::dfa::Config::(\w+)$", c)
            if not m:
                continue
            n += 1
            meth = m.group(1)
            bad = meth in DENY
            if meth == "cache_capacity" and len(t["args"]) > 1:
                v = core.const_int(t["args"][1])
                if v is not None and v >= DEFAULT_CAPACITY:
                    bad = False
            rep.ob("dfa-config.cache-policy-left-at-default", "%s calls Config::%s" % (p.split("lexer::")[-1], meth), not bad,
                   "the runtime lexer's lazy DFA is built with Config::%s: %s -- %s" % (meth, DENY.get(meth, ""), consequence),
                   key="%s:%s" % (key_prefix, meth), file=b.relfile(), line=t["ln"], fn=p)
    rep.floor("hybrid::dfa::Config calls in lalrpop_util::lexer", n, 1)
