"""C20 -- code generation is deterministic.

Decided as a sound over-approximation for the generator process: no source of run-to-run or
batch-dependent variation can reach the emitted bytes, because none exists in the type-checked
program of the `lalrpop` crate: (1) no iteration over hash-ordered collections, (2) no mutable
global state other than two RAII-scoped thread locals, (3) no ambient sources (time, randomness,
addresses, process/thread ids, undeclared environment reads), (4) directory walks are sorted.
"""
import json
import re

from . import core
from .core import callee_of, callee_args
from .report import Report

LEVEL = "proof"
EXPLANATION = (
    "Obligations over every MIR body of the lalrpop crate (lib + bin; the generated parser::lrgrammar "
    "included for the type rule): R1 every evidence of hash-order iteration (a local or a generic argument "
    "of a hash_map/hash_set iterator type, a hash collection handed by value/reference to generic code, Debug "
    "formatting of one) is absent or in the frozen exception table; R2 the set of statics/thread-locals with "
    "interior mutability is exactly the two RAII-scoped keys, each written only by its guard's constructor "
    "and Drop, and Session (the only value shared between files of a batch) is Freeze; R3 every call to a "
    "time/random/env/process/thread/address source is in the frozen table of configuration reads or is a "
    "timestamp that only flows to Session::log; R4 the directory walk is sorted before iteration. "
    "Absence of any order/time/global source implies equal bytes across runs, processes and batches.")

HASH_ITER = re.compile(r"std::collections::hash_(map|set)::([A-Za-z]+)|hashbrown::")
HASH_COLL = re.compile(r"^(&'?\S* ?)?(&mut )?(&)?std::collections::(HashMap|HashSet)<")

# callees that may take a hash collection as a generic argument without observing its order
ORDER_BLIND = re.compile(
    r"::index$|::index_mut$|::clone$|::default$|::deref$|::deref_mut$|^std::mem::|^core::mem::|"
    r"^std::option::Option::<T>::|^std::result::Result::<T, E>::|::new$|^std::ops::Drop::drop$|"
    r"^core::ptr::drop_in_place|::borrow$|::borrow_mut$|::as_ref$|::as_mut$|::eq$|::ne$")

# R1 frozen exceptions: (function, iterator type) -> reason (confirmed by reading)
HASH_EXCEPTIONS = {
    ("lalrpop::normalize::tyinfer::TypeInferencer::<'grammar>::infer_types", "Keys"):
        "keys are only used to drive memoised nonterminal_type(); results land in the BTreeMap-backed Types; "
        "the early error exit carries a diagnostic only (no output is written on error)",
}

# R3 frozen table of configuration reads: (callee, function, constant key or None)
ENV_ALLOWED = {
    ("std::env::var", "lalrpop::api::Configuration::use_cargo_dir_conventions", "OUT_DIR"): "documented cargo convention",
    ("std::env::var_os", "lalrpop::api::Configuration::process_dir", "OUT_DIR"): "documented cargo convention",
    ("std::env::vars", "lalrpop::api::Configuration::process_dir", None): "CARGO_FEATURE_* -> BTreeSet features (configuration per the property)",
    ("std::env::var", "lalrpop::lr1::build::use_lane_table", "LALRPOP_LANE_TABLE"): "documented algorithm switch (configuration)",
    ("std::env::current_dir", "lalrpop::api::Configuration::process_current_dir", None): "root directory to search (configuration)",
}

AMBIENT = re.compile(
    r"^std::time::SystemTime::|^std::time::Instant::now$|^std::env::(var|var_os|vars|vars_os|args|args_os|current_dir|current_exe|temp_dir|home_dir)$|"
    r"^rand|^getrandom|^fastrand|std::hash::RandomState::new|std::collections::hash_map::RandomState::new|DefaultHasher|"
    r"^std::process::id$|^std::thread::current$|^std::thread::spawn$|^std::thread::scope$|"
    r"std::fmt::Pointer|::addr$|expose_provenance|^std::ptr::(hash|eq)$|^core::ptr::(hash|eq)$|<\*(const|mut) T as std::cmp::(Ord|PartialOrd)|^std::fs::read_dir$|^std::fs::metadata$|^std::fs::symlink_metadata$|^std::net::|^std::io::stdin$")


def hash_evidence(b):
    ev = set()
    for l in b.locals:
        m = HASH_ITER.search(l["ty"])
        if m:
            ev.add(("local", m.group(2) or "hashbrown"))
    for bi, t in b.calls():
        c = callee_of(t) or ""
        args = core.split_generic_args(callee_args(t))
        for a in args:
            m = HASH_ITER.search(a)
            if m:
                ev.add(("generic-arg", m.group(2) or "hashbrown"))
        if ("::fmt" in c or "Argument::<'_>::new_debug" in c or "new_display" in c) and \
                any("std::collections::HashMap<" in a or "std::collections::HashSet<" in a for a in args):
            ev.add(("debug-format", "HashMap/HashSet"))
        if not ORDER_BLIND.search(c):
            # sink positions: collect::<B> (last) and FromIterator::from_iter Self (first)
            sink = set()
            if c.endswith("::collect") and args:
                sink.add(len(args) - 1)
            if c.endswith("::from_iter") and args:
                sink.add(0)
            if "as std::iter::Extend" in c or c.endswith("Extend::extend"):
                sink.add(0)
            if c.startswith("std::collections::Hash") or c.startswith("<std::collections::Hash"):
                continue  # methods of the collection itself (insert/get/contains/len ...)
            for i, a in enumerate(args):
                if i in sink:
                    continue
                if HASH_COLL.search(a):
                    ev.add(("passed-to-generic:" + c, "HashMap/HashSet"))
    return ev


def run(tier):
    rep = Report("C20", LEVEL, tier)
    rep.explanation = EXPLANATION
    rep.not_decided = "nothing of the generator side; the runtime behaviour of generated parsers is not part of C20"
    rep.assumptions = [
        "BTreeMap/BTreeSet, Vec, petgraph::Graph, ena, bit-set, itertools iterate in insertion/key order",
        "string_cache::Atom: Ord compares string contents (read in the vendored source)",
        "regex-syntax's Display of a Hir and sha3 are pure functions",
        "rustc resolves every call (dyn calls on non-local traits are not followed)"]
    rep.trusted = ["rustc type checking and MIR (every local's type is the resolved type, aliases expanded)",
                   "frozen exception tables in rules/c20.py (one line of reason each)"]
    f = core.Facts(core.ensure_facts())
    bodies = [b for b in f.bodies.values() if b.unit in ("lalrpop-lib", "lalrpop-bin")]
    rep.analysed["bodies"] = len(bodies)
    rep.floor("MIR bodies of the lalrpop crate", len(bodies), 3000)

    # ---------------- R1 hash order
    n_ev = 0
    hash_users = 0
    for b in bodies:
        if any("HashMap<" in l["ty"] or "HashSet<" in l["ty"] for l in b.locals):
            hash_users += 1
        ev = hash_evidence(b)
        if not ev:
            continue
        for kind, what in sorted(ev):
            n_ev += 1
            reason = HASH_EXCEPTIONS.get((b.path, what))
            ok = reason is not None and kind in ("local", "generic-arg")
            rep.ob("R1.no-hash-order-iteration", "%s [%s %s]%s" % (b.path, kind, what, " (frozen exception: %s)" % reason if ok else ""), ok,
                   "iteration over (or order-observing use of) a hash-ordered collection: %s %s; the order depends on the "
                   "per-process RandomState seed and can reach the generated bytes" % (kind, what),
                   key="hash-iter:%s:%s" % (b.path, what), file=b.relfile(), line=b.line, fn=b.path)
    rep.analysed["hash_iteration_evidence"] = n_ev
    rep.analysed["bodies_with_hash_collections"] = hash_users
    # positive control: the exception site must still be *seen* by the rule (else the rule is blind)
    rep.floor("hash-iteration evidence seen (positive control: the frozen exception site)", n_ev, 1)

    # ---------------- R2 global state
    tls_keys = []
    for (unit, path), it in sorted(f.items.items()):
        if unit not in ("lalrpop-lib", "lalrpop-bin"):
            continue
        from_tls_macro = "thread_local" in it.get("mac", "")
        if it["kind"] == "static":
            if it["mut"]:
                rep.violation("R2.no-static-mut", path, "static mut item", key="static-mut:" + path,
                              file=it["file"], line=it["line"])
            elif not it["freeze"] and not from_tls_macro:
                rep.violation("R2.no-interior-mutable-static", path,
                              "static with interior mutability (%s): state survives across files of a batch" % it["ty"],
                              key="static-interior-mut:" + path, file=it["file"], line=it["line"])
            else:
                rep.ob("R2.static-immutable", path, True)
        elif it["ty"].startswith("std::thread::LocalKey<"):
            tls_keys.append((path, it))
    rep.analysed["thread_local_keys"] = [p for p, _ in tls_keys]
    for path, it in tls_keys:
        # writers: bodies referencing the key whose closures mutate the RefCell/Cell
        users = []
        for b in bodies:
            if b.kind == "promoted":
                continue
            refs = path in f.const_refs(b)
            if refs:
                users.append(b)
        writers, readers = [], []
        for b in users:
            muts = False
            for cb in [b] + f.closures_of(b):
                for bi, t in cb.calls():
                    c = callee_of(t) or ""
                    if re.search(r"RefCell::<T>::(borrow_mut|replace|replace_with|swap|take|set)|Cell::<T>::(set|replace|take|swap|update)", c) or c.endswith("::get_mut"):
                        muts = True
            (writers if muts else readers).append(b)
        drops = [b for b in writers if " as std::ops::Drop>::drop" in b.path]
        ctors = [b for b in writers if b not in drops]
        guard_ok = False
        if len(drops) == 1 and len(ctors) == 1:
            m = re.match(r"<(.+) as std::ops::Drop>::drop", drops[0].path)
            guard = m.group(1) if m else None
            guard_ok = guard is not None and ctors[0].local_ty(0) == guard
        rep.ob("R2.thread-local-is-raii-scoped", path, guard_ok,
               "thread-local %s is written by %s: expected exactly the constructor of an RAII guard and that guard's Drop "
               "(state must not survive from one file/start symbol to the next)" % (path, [b.path for b in writers]),
               key="thread-local:" + path, file=it["file"], line=it["line"])
        rep.sample({"thread_local": path, "writers": [b.path for b in writers], "readers": [b.path for b in readers]})
    rep.floor("thread-local keys found (positive control)", len(tls_keys), 2)
    sess = f.adts.get("lalrpop::session::Session")
    if sess is None:
        rep.anchor_missing("lalrpop::session::Session")
    else:
        rep.ob("R2.session-is-freeze", "lalrpop::session::Session", sess.get("freeze") is True,
               "Session (shared by all files of a batch through Rc) has interior mutability: per-file output may depend on batch composition",
               key="session-not-freeze", file=sess["file"], line=sess["line"])

    # ---------------- R3 ambient sources
    n_amb = 0
    for b in bodies:
        for bi, t in b.calls():
            c = callee_of(t) or ""
            if not AMBIENT.search(c):
                continue
            n_amb += 1
            owner = b.path.replace("bin:", "")
            if c == "std::time::Instant::now":
                tl, sinks, esc = core.taint(b, {t["dest"]["l"]})
                bad = [s for s in sinks if not re.search(
                    r"^std::time::(Instant::elapsed|Instant::duration_since|Duration::)|^lalrpop::session::Session::log$|"
                    r"::deref$|^std::ops::Drop::drop$", s[1] or "")]
                # closures capturing the timestamp must be the log closure: captured by an aggregate passed to Session::log
                rep.ob("R3.timestamp-only-logged", "%s Instant::now" % owner, not bad and not esc,
                       "a timestamp flows to %s%s" % ([s[1] for s in bad][:4], " and to the return value" if esc else ""),
                       key="timestamp-escapes:%s" % owner, file=b.relfile(), line=t["ln"], fn=owner)
                continue
            if c.startswith("std::env::"):
                key = None
                for a in t["args"]:
                    for d in core.origins(b, a, facts=f):
                        if d[0] == "const":
                            key = json.loads(d[1]).get("str", key)
                ok = (c, owner, key) in ENV_ALLOWED
                rep.ob("R3.env-reads-are-declared-configuration", "%s %s(%r)" % (owner, c, key), ok,
                       "undeclared read of the process environment: the output could depend on it",
                       key="env-read:%s@%s:%s" % (c, owner, key), file=b.relfile(), line=t["ln"], fn=owner)
                continue
            rep.violation("R3.no-ambient-source", "%s calls %s" % (owner, c),
                          "call to a time/random/process/thread/address/unsorted-directory source",
                          key="ambient:%s@%s" % (c, owner), file=b.relfile(), line=t["ln"], fn=owner)
        for bi, si, s in b.stmts():
            if s["k"] == "assign" and s["r"]["k"] == "binop" and s["r"]["op"] in ("Lt", "Le", "Gt", "Ge") and not s.get("exp"):
                tys = [b.local_ty(l) for o in (s["r"]["a"], s["r"]["b"]) for l in core.operand_locals(o)[:1]]
                if any(t.startswith("*const") or t.startswith("*mut") for t in tys):
                    rep.violation("R3.no-address-ordering", b.path, "raw pointers are ordered by address", key="ptr-order:%s" % b.path,
                                  file=b.relfile(), line=s["ln"], fn=b.path)
            if s["k"] == "assign" and s["r"]["k"] == "cast" and "ExposeProvenance" in s["r"]["ck"] and not s.get("exp"):
                rep.violation("R3.no-address-to-int", b.path, "pointer cast to integer (%s)" % s["r"]["ty"],
                              key="ptr2int:%s" % b.path, file=b.relfile(), line=s["ln"], fn=b.path)
    rep.analysed["ambient_call_sites"] = n_amb
    rep.floor("ambient-source call sites classified (positive control)", n_amb, 5)

    # ---------------- R4 sorted directory walk
    walkers = [b for b in bodies if any((callee_of(t) or "") == "walkdir::WalkDir::new" for _, t in b.calls())]
    rep.floor("directory walkers", len(walkers), 1)
    for b in walkers:
        for bi, t in b.calls():
            if (callee_of(t) or "") == "<walkdir::WalkDir as std::iter::IntoIterator>::into_iter":
                chain = []
                cur = t["args"][0]
                for _ in range(20):
                    l = core.op_local(cur)
                    ds = [d for d in b.defs.get(l, [])] if l is not None else []
                    nxt = None
                    for dbi, si, d in ds:
                        if si == "t":
                            chain.append(callee_of(d))
                            nxt = d["args"][0] if d["args"] else None
                        elif d["r"]["k"] == "use":
                            nxt = d["r"]["o"]
                    if nxt is None:
                        break
                    cur = nxt
                ok = any(c and re.search(r"walkdir::WalkDir::sort_by", c) for c in chain)
                rep.ob("R4.directory-walk-sorted", "%s builder chain %s" % (b.path, chain), ok,
                       "the directory walk is iterated without sort_by*: files are processed in readdir order",
                       key="walk-unsorted:%s" % b.path, file=b.relfile(), line=t["ln"], fn=b.path)
    return rep
