"""Empty-reduction location chain (shared by C06 and C07) and @L/@R actions (C06)."""
import re

from . import core
from . import tmplutil as tu

FILES = ("lr1/codegen/parse_table.rs", "lr1/codegen/ascent.rs")


def empty_reduction_templates(T):
    """`let {p}start ...` templates emitted for a production that pops no symbol: those in an
    emit_reduce_action under the else side of the `(transfer_syms.first(), transfer_syms.last())` test"""
    out = []
    for m in T.macros:
        if m["macro"] != "rust" or not m["fmt"]:
            continue
        if not m["file"].endswith(FILES) or not m["fn"].endswith("::emit_reduce_action"):
            continue
        c = tu.cooked(m["fmt"])
        if not re.match(r"^\s*let\s+·\w+·start\b", c):
            continue
        under_else = any(g["kind"] == "else" and re.search(r"\.\s*first\s*\(\s*\)", g["cond"]) and re.search(r"\.\s*last\s*\(\s*\)", g["cond"])
                         for g in m["guards"])
        if under_else:
            out.append(m)
    return out


def check_chain(rep, f, prefix=""):
    T = f.tmpl
    ms = empty_reduction_templates(T)
    per_file = {}
    for m in ms:
        per_file.setdefault(m["file"].split("/")[-1], []).append(m)
    rep.analysed["empty_reduction_start_templates"] = {k: len(v) for k, v in per_file.items()}
    rep.floor(prefix + "empty-reduction `let start` templates in the table-driven backend", len(per_file.get("parse_table.rs", [])), 1)
    rep.floor(prefix + "empty-reduction `let start` templates in the recursive-ascent backend", len(per_file.get("ascent.rs", [])), 3)
    for m in ms:
        c = tu.cooked(m["fmt"])
        rhs = c.split("=", 1)[1] if "=" in c else c
        la = re.search(r"lookahead", rhs)
        fallback = re.search(r"Default|unwrap_or_default|sym|symbols", rhs)
        ok = la is not None and (fallback is None or la.start() < fallback.start())
        guards = " / ".join("%s(%s)" % (g["kind"], g["cond"][:40]) for g in m["guards"])
        rep.ob(prefix + "empty-reduction.start-is-lookahead-first", "%s %s [%s]" % (tu.short(m), c.strip()[:90], guards), ok,
               "an empty reduction takes its location from %r without consulting the lookahead first: a nonterminal deriving nothing "
               "gets a different span than in the sibling backend (which uses lookahead start, then end of the last symbol, then default)" % rhs.strip()[:80],
               key="empty-reduction-start:%s:%s" % (m["file"].split("/")[-1], "no-lookahead" if la is None else "order"),
               file=m["file"], line=m["line"], fn=m["fn"])
        rep.sample({"template": c.strip(), "file": tu.short(m)})


def check_lookaround(rep, f, prefix=""):
    T = f.tmpl
    ms = [m for m in T.macros if m["macro"] == "rust" and m["fmt"] and m["file"].endswith("build/action.rs")
          and m["fn"].endswith("emit_lookaround_action_code")]
    arms = {}
    for m in ms:
        for g in m["guards"]:
            if g["kind"] == "match" and "LookaroundActionFnDefn" in g["pat"]:
                arms.setdefault(g["pat"].replace(" ", "").split("::")[-1], []).append(m)
    rep.floor(prefix + "@L/@R action arms", len(arms), 2)
    for arm, want, other in (("Lookahead", "lookahead", "lookbehind"), ("Lookbehind", "lookbehind", "lookahead")):
        text = " ".join(tu.cooked(m["fmt"]) for m in arms.get(arm, []))
        ok = want in text and other not in text
        rep.ob(prefix + "lookaround.%s-returns-%s" % (arm, want), "build/action.rs emit_lookaround_action_code arm %s: %r" % (arm, text), ok,
               "the action for %s does not return the %s location" % ("@L" if arm == "Lookahead" else "@R", want),
               key="lookaround:%s" % arm, file="lalrpop/src/build/action.rs", line=arms.get(arm, [{"line": 0}])[0]["line"])


def check_inline_spans(rep, f, prefix=""):
    """Spans handed to an inlined production (build::action::emit_inline_action_code, first pass), by abstract
    evaluation of the generator's guards and index expressions for every (arg_counter k, num_flat_args n) with
    0 <= k <= n <= 3:  non-empty item: (start of its first symbol, end of its last);  empty item (this is what @L / @R
    are): lookbehind := end of the previous symbol, else start of the next, else the caller's lookbehind;
    lookahead := start of the next symbol, else end of the last symbol, else the caller's lookahead."""
    T = f.tmpl
    ms = sorted([m for m in T.macros if m["macro"] == "rust" and m["fmt"] and m["file"].endswith("build/action.rs")
                 and m["fn"].endswith("emit_inline_action_code") and re.match(r"^let ·0·(start|end)·1· = ", tu.cooked(m["fmt"]))], key=lambda m: m["seq"])
    if not rep.floor(prefix + "inline span templates", len(ms), 8):
        return

    def safe_eval(expr, env):
        e = expr.replace(" ", "")
        e = e.replace("syms.is_empty()", "EMPTY").replace("syms.len()", "SLEN")
        e = re.sub(r"!(?!=)", " not ", e)
        if not re.fullmatch(r"[A-Za-z_0-9<>=!+\-() ]+", e.replace("not", "")) and not re.fullmatch(r"[A-Za-z_0-9<>=!+\-() not]+", e):
            return None
        try:
            return eval(e, {"__builtins__": {}}, env)
        except Exception:
            return None

    def selected(kind, env):
        out = []
        for m in ms:
            c = tu.cooked(m["fmt"])
            if not c.startswith("let ·0·%s·1·" % kind):
                continue
            ok = True
            for g in m["guards"]:
                if g["kind"] not in ("if", "else"):
                    continue
                v = safe_eval(g["cond"], env)
                if v is None:
                    ok = None
                    break
                if (g["kind"] == "if") != bool(v):
                    ok = False
                    break
            if ok is None:
                return None
            if ok:
                rhs = c.split("=", 1)[1].strip()
                mm = re.match(r"^·2··3·\.([02])\.clone\(\);$", rhs)
                if mm:
                    idx = safe_eval(m["args"][3]["expr"], env)
                    out.append(("arg", idx, int(mm.group(1))))
                elif re.match(r"^·2·lookbehind\.clone\(\);$", rhs):
                    out.append(("lookbehind",))
                elif re.match(r"^·2·lookahead\.clone\(\);$", rhs):
                    out.append(("lookahead",))
                else:
                    out.append(("?", rhs))
        return out

    bad = []
    n_cfg = 0
    for n in range(0, 4):
        for k in range(0, n + 1):
            # empty inlined item at position k of n flat arguments
            env = {"arg_counter": k, "num_flat_args": n, "EMPTY": True, "SLEN": 0, "last_arg_index": k - 1}
            want_s = ("arg", k - 1, 2) if k > 0 else (("arg", k, 0) if n > 0 else ("lookbehind",))
            want_e = ("arg", k, 0) if k < n else (("arg", n - 1, 2) if n > 0 else ("lookahead",))
            for kind, want in (("start", want_s), ("end", want_e)):
                n_cfg += 1
                got = selected(kind, env)
                if got != [want]:
                    bad.append(("empty", k, n, kind, got, want))
            # non-empty item of length L starting at k
            for L in range(1, n - k + 1):
                env = {"arg_counter": k, "num_flat_args": n, "EMPTY": False, "SLEN": L, "last_arg_index": k + L - 1}
                for kind, want in (("start", ("arg", k, 0)), ("end", ("arg", k + L - 1, 2))):
                    n_cfg += 1
                    got = selected(kind, env)
                    if got != [want]:
                        bad.append(("nonempty", k, n, kind, got, want))
    rep.analysed["inline_span_configurations"] = n_cfg
    rep.ob(prefix + "inline.spans-follow-neighbours", "emit_inline_action_code: %d (position, arity, length) configurations evaluated" % n_cfg, not bad,
           "for an inlined item the generator selects %s" % "; ".join("%s item at %d of %d: %s = %s, documented %s" % b for b in bad[:3]),
           key="inline-span", file="lalrpop/src/build/action.rs", line=ms[0]["line"])
    # last_arg_index is arg_counter + syms.len() - 1
    lets = [l for l in T.lets if l["file"].endswith("build/action.rs") and l["fn"].endswith("emit_inline_action_code") and l["pat"].strip() == "last_arg_index"]
    ok = len(lets) == 1 and lets[0]["init"].replace(" ", "") in ("arg_counter+syms.len()-1", "arg_counter+(syms.len()-1)", "syms.len()+arg_counter-1")
    rep.ob(prefix + "inline.last-argument-index", "last_arg_index = %s" % (lets[0]["init"] if lets else "?"), ok,
           "the end of a non-empty inlined item is not taken from its last symbol", key="inline-last-arg", file="lalrpop/src/build/action.rs", line=lets[0]["line"] if lets else 0)
