"""Empty-reduction location chain (shared by C06 and C07) and @L/@R actions (C06)."""
import re

from . import core
from . import tmplutil as tu

FILES = ("lr1/codegen/parse_table.rs", "lr1/codegen/ascent.rs")


def empty_reduction_templates(T):
    """`let {p}start ...` templates emitted for a production that pops no symbol: those in an
    emit_reduce_action under the else side of the `(transfer_syms.first(), transfer_syms.last())` test"""
    out = []
    for m in T.macros:
        if m["macro"] != "rust" or not m["fmt"]:
            continue
        if not m["file"].endswith(FILES) or not m["fn"].endswith("::emit_reduce_action"):
            continue
        c = tu.cooked(m["fmt"])
        if not re.match(r"^\s*let\s+·\w+·start\b", c):
            continue
        under_else = any(g["kind"] == "else" and re.search(r"\.\s*first\s*\(\s*\)", g["cond"]) and re.search(r"\.\s*last\s*\(\s*\)", g["cond"])
                         for g in m["guards"])
        if under_else:
            out.append(m)
    return out


def check_chain(rep, f, prefix=""):
    T = f.tmpl
    ms = empty_reduction_templates(T)
    per_file = {}
    for m in ms:
        per_file.setdefault(m["file"].split("/")[-1], []).append(m)
    rep.analysed["empty_reduction_start_templates"] = {k: len(v) for k, v in per_file.items()}
    rep.floor(prefix + "empty-reduction `let start` templates in the table-driven backend", len(per_file.get("parse_table.rs", [])), 1)
    rep.floor(prefix + "empty-reduction `let start` templates in the recursive-ascent backend", len(per_file.get("ascent.rs", [])), 3)
    for m in ms:
        c = tu.cooked(m["fmt"])
        rhs = c.split("=", 1)[1] if "=" in c else c
        la = re.search(r"lookahead", rhs)
        fallback = re.search(r"Default|unwrap_or_default|sym|symbols", rhs)
        ok = la is not None and (fallback is None or la.start() < fallback.start())
        guards = " / ".join("%s(%s)" % (g["kind"], g["cond"][:40]) for g in m["guards"])
        rep.ob(prefix + "empty-reduction.start-is-lookahead-first", "%s %s [%s]" % (tu.short(m), c.strip()[:90], guards), ok,
               "an empty reduction takes its location from %r without consulting the lookahead first: a nonterminal deriving nothing "
               "gets a different span than in the sibling backend (which uses lookahead start, then end of the last symbol, then default)" % rhs.strip()[:80],
               key="empty-reduction-start:%s:%s" % (m["file"].split("/")[-1], "no-lookahead" if la is None else "order"),
               file=m["file"], line=m["line"], fn=m["fn"])
        rep.sample({"template": c.strip(), "file": tu.short(m)})


def check_lookaround(rep, f, prefix=""):
    T = f.tmpl
    ms = [m for m in T.macros if m["macro"] == "rust" and m["fmt"] and m["file"].endswith("build/action.rs")
          and m["fn"].endswith("emit_lookaround_action_code")]
    arms = {}
    for m in ms:
        for g in m["guards"]:
            if g["kind"] == "match" and "LookaroundActionFnDefn" in g["pat"]:
                arms.setdefault(g["pat"].replace(" ", "").split("::")[-1], []).append(m)
    rep.floor(prefix + "@L/@R action arms", len(arms), 2)
    for arm, want, other in (("Lookahead", "lookahead", "lookbehind"), ("Lookbehind", "lookbehind", "lookahead")):
        text = " ".join(tu.cooked(m["fmt"]) for m in arms.get(arm, []))
        ok = want in text and other not in text
        rep.ob(prefix + "lookaround.%s-returns-%s" % (arm, want), "build/action.rs emit_lookaround_action_code arm %s: %r" % (arm, text), ok,
               "the action for %s does not return the %s location" % ("@L" if arm == "Lookahead" else "@R", want),
               key="lookaround:%s" % arm, file="lalrpop/src/build/action.rs", line=arms.get(arm, [{"line": 0}])[0]["line"])
