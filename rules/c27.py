"""C27 -- generated parsers are reentrant and safe to share across threads.

Decided (whole property, type level + absence of shared mutable state): concurrent `parse(&self)`
calls can only share what is reachable from `&Parser`.  The rules establish that this is an
immutable, Send + Sync value and that nothing else (statics, thread-locals, unsafe code) is shared.
"""
import re

from . import core
from . import tmplutil as tu
from .report import Report

LEVEL = "proof"
EXPLANATION = (
    "Obligations: (1) rustc facts: lalrpop_util::lexer::MatcherBuilder is Send, Sync and Freeze; Matcher owns "
    "its lazy-DFA Cache by value and borrows the DFA immutably; lalrpop-util defines no static mut, no "
    "static/thread-local with interior mutability and contains no unsafe code. (2) templates: the generated "
    "`…Parser` struct has only fields of allow-listed immutable Send+Sync types (MatcherBuilder, (), PhantomData, "
    "primitives), `parse` takes `&self`, the only use of `self` inside the parser impl is `self.builder.matcher(..)` "
    "(a fresh Matcher per call), and no template emits `static`, `thread_local!`, `unsafe` or an interior-"
    "mutability / lazy-init type. With Rust's aliasing rules, concurrent parses share only `&MatcherBuilder`, so "
    "no call can observe another.")

FIELD_OK = re.compile(
    r"^(·\w+·)?lalrpop_util::lexer::MatcherBuilder$|^\(\)$|^(core|std)::marker::PhantomData<.*>$|"
    r"^(usize|u8|u16|u32|u64|i8|i16|i32|i64|bool|char|&'static str|String)$")
DENY_IDENT = {"static", "thread_local", "unsafe", "Cell", "RefCell", "UnsafeCell", "Mutex", "RwLock", "Once",
              "OnceCell", "OnceLock", "Lazy", "LazyLock", "LazyCell", "lazy_static", "AtomicBool", "AtomicUsize",
              "AtomicIsize", "AtomicU8", "AtomicU16", "AtomicU32", "AtomicU64", "AtomicI32", "AtomicI64", "AtomicPtr",
              "Rc", "transmute"}
CODEGEN_FILES = ("lr1/codegen/", "build/", "lexer/intern_token/", "rust/mod.rs")


def run(tier):
    rep = Report("C27", LEVEL, tier)
    rep.explanation = EXPLANATION
    rep.not_decided = "user action code and user-supplied token iterators (outside the generated code's control)"
    rep.assumptions = ["regex-automata's hybrid::dfa::DFA is immutable after construction (documented; Cache holds all mutable state)",
                       "user action code does not introduce shared state"]
    rep.trusted = ["rustc auto-trait and borrow checking", "rustc is_freeze query"]
    f = core.Facts(core.ensure_facts())
    # ---- (1) runtime library facts
    mb = f.adts.get("lalrpop_util::lexer::MatcherBuilder")
    if mb is None:
        rep.anchor_missing("lalrpop_util::lexer::MatcherBuilder")
        return rep
    for q in ("send", "sync", "freeze"):
        rep.ob("runtime.MatcherBuilder-is-%s" % q, "lalrpop_util::lexer::MatcherBuilder", mb.get(q) is True,
               "MatcherBuilder is not %s: a parser shared between threads would %s" % (
                   q.capitalize(), "not compile" if q != "freeze" else "carry interior mutability reachable from &self"),
               key="MatcherBuilder-not-%s" % q, file=mb["file"], line=mb["line"])
    m = f.adts.get("lalrpop_util::lexer::Matcher")
    if m is None:
        rep.anchor_missing("lalrpop_util::lexer::Matcher")
    else:
        for fld in m["variants"][0]["fields"]:
            t = fld["ty"]
            shared_mut = t.startswith("&") and ("mut " in t[:12] or re.search(r"Cell<|Mutex<|RwLock<|Atomic", t))
            owns_or_shared = not shared_mut
            rep.ob("runtime.Matcher-field", "Matcher.%s: %s" % (fld["name"], t), owns_or_shared,
                   "per-parse Matcher holds a mutable/interior-mutable reference into the shared builder",
                   key="Matcher-field:%s" % fld["name"], file=m["file"], line=m["line"])
        cache = [x for x in m["variants"][0]["fields"] if "Cache" in x["ty"]]
        rep.ob("runtime.Matcher-owns-cache", "Matcher", any(not x["ty"].startswith("&") for x in cache),
               "the lazy DFA cache is not owned by the per-parse Matcher", key="Matcher-cache-not-owned",
               file=m["file"], line=m["line"])
    n_items = 0
    for (unit, path), it in f.items.items():
        if unit != "lalrpop_util-lib":
            continue
        n_items += 1
        bad = it["kind"] == "static" and (it["mut"] or not it["freeze"]) or it["ty"].startswith("std::thread::LocalKey<")
        rep.ob("runtime.no-shared-mutable-item", path, not bad,
               "lalrpop-util defines shared mutable state: %s %s" % (it["kind"], it["ty"]),
               key="util-item:%s" % path, file=it["file"], line=it["line"])
    for it in f.tmpl_util.statics:
        rep.ob("runtime.no-static", "%s:%s" % (it["file"], it["name"]), not it["mut"], "static mut in lalrpop-util",
               key="util-static-mut:%s" % it["name"], file=it["file"], line=it["line"])
    rep.ob("runtime.no-unsafe", "lalrpop-util/src (%d files)" % f.tmpl_util.files, not f.tmpl_util.unsafe,
           "unsafe code in lalrpop-util: %s" % [(u["file"], u["line"]) for u in f.tmpl_util.unsafe],
           key="util-unsafe", file="lalrpop-util/src", line=0)
    rep.analysed.update({"util_items": n_items, "util_files": f.tmpl_util.files,
                         "util_bodies": f.nbodies.get("lalrpop_util-lib")})

    # ---- (2) templates
    T = f.tmpl
    gen = [x for x in T.macros if x["macro"] == "rust" and x["fmt"] is not None]
    rep.floor("code-emission templates (rust!)", len(gen), 500)
    # 2a. denylisted identifiers in any template or in any string literal of the codegen files
    n_scan = 0
    for x in gen:
        n_scan += 1
        ids = set(tu.idents(tu.skeleton(x["fmt"])))
        bad = ids & DENY_IDENT
        if bad:
            rep.violation("templates.no-shared-state-construct", tu.short(x),
                          "template emits %s: %r" % (sorted(bad), x["fmt"][:100]),
                          key="template-shared-state:%s:%s" % (x["fn"].split("::")[-1], ",".join(sorted(bad))),
                          file=x["file"], line=x["line"], fn=x["fn"])
    n_lit = 0
    for l in T.lits:
        if not any(c in l["file"] for c in CODEGEN_FILES):
            continue
        n_lit += 1
        ids = set(tu.idents(l["value"]))
        bad = ids & (DENY_IDENT - {"static"})
        if "static" in ids and re.search(r"(^|[^'\w])static\s+\w", l["value"]):
            bad = bad | {"static"}
        if bad:
            rep.violation("templates.no-shared-state-construct", "%s:%d literal" % (l["file"], l["line"]),
                          "string literal in code generator mentions %s: %r" % (sorted(bad), l["value"][:100]),
                          key="literal-shared-state:%s:%s" % (l["fn"].split("::")[-1], ",".join(sorted(bad))),
                          file=l["file"], line=l["line"], fn=l["fn"])
    rep.ob("templates.no-shared-state-construct", "%d templates, %d literals scanned" % (n_scan, n_lit), True)
    rep.analysed.update({"templates_scanned": n_scan, "codegen_literals_scanned": n_lit})
    # 2b. the Parser struct
    byfn = tu.by_fn(gen)
    structs = []
    for (file, fn), ms in byfn.items():
        for i, x in enumerate(ms):
            c = tu.cooked(x["fmt"])
            mm = re.search(r"\bstruct\s+(\S*Parser)\b[^;]*\{\s*$", c)
            if mm:
                fields = []
                for y in ms[i + 1:]:
                    cy = tu.cooked(y["fmt"]).strip()
                    if cy.startswith("}"):
                        break
                    fields.append((y, cy))
                structs.append((x, mm.group(1), fields))
    rep.floor("generated Parser struct declarations", len(structs), 1)
    for x, name, fields in structs:
        generic = "<" in tu.cooked(x["fmt"]).split("struct", 1)[1].split("{")[0]
        rep.ob("parser-struct.no-type-parameters", tu.short(x), not generic,
               "the Parser struct has type parameters (its Send/Sync would depend on user types)",
               key="parser-struct-generic", file=x["file"], line=x["line"], fn=x["fn"])
        for y, cy in fields:
            fm = re.match(r"^(pub(\([^)]*\))?\s+)?(\w+)\s*:\s*(.+?),?$", cy)
            ok = bool(fm) and bool(FIELD_OK.match(fm.group(4).strip()))
            rep.ob("parser-struct.field-immutable-send-sync", "%s field `%s`" % (tu.short(y), cy), ok,
                   "field of the generated Parser struct is not of an allow-listed immutable Send+Sync type: %r" % cy,
                   key="parser-struct-field:%s" % (fm.group(3) if fm else cy), file=y["file"], line=y["line"], fn=y["fn"])
        rep.sample({"struct": tu.cooked(x["fmt"]), "fields": [cy for _, cy in fields]})
    # 2c. parse(&self)
    sp = [l for l in T.lits if l["value"] in ("&self", "&mut self", "self", "mut self") and ".with_parameters" in l["calls"]]
    recv = [l for l in sp if "start_parser_fn" in l["fn"]]
    rep.floor("receiver of the generated parse fn", len(recv), 1)
    for l in recv:
        rep.ob("parse.takes-shared-self", "%s:%d `%s`" % (l["file"], l["line"], l["value"]), l["value"] == "&self",
               "generated parse() does not take &self: a parser cannot be used concurrently",
               key="parse-receiver:%s" % l["value"], file=l["file"], line=l["line"], fn=l["fn"])
    # 2d. uses of `self.` inside generated parser impl: only self.builder.matcher(
    for x in gen:
        c = tu.cooked(x["fmt"])
        if "base.rs" in x["file"] or "test_all.rs" in x["file"] or "ascent.rs" in x["file"]:
            for mm in re.finditer(r"\bself\.(\w+)(\.\w+)?", c):
                ok = (mm.group(1) == "builder" and mm.group(2) in (".matcher", None))
                rep.ob("parse.self-use-is-matcher", "%s `%s`" % (tu.short(x), c.strip()[:80]), ok,
                       "generated parser code uses self.%s%s" % (mm.group(1), mm.group(2) or ""),
                       key="parser-self-use:%s" % mm.group(0), file=x["file"], line=x["line"], fn=x["fn"])
    # positive control for the denylist scanner
    rep.ob("selfcheck.denylist-scanner", "tokeniser", "static" in tu.idents("pub static FOO: u8") and "'static" in tu.idents("&'static str")
           and "static" not in tu.idents("&'static str"), "identifier scanner broken", key="scanner-broken")
    return rep
