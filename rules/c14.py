"""C14 -- inlining a nonterminal preserves language and parse results
(clause: the synthetic action pairs inlined results and original arguments positionally, in order)."""
import re

from . import core
from . import tmplutil as tu
from .core import callee_of, callee_args, origins
from .report import Report

LEVEL = "other"
EXPLANATION = (
    "The synthetic action emitted for an inlined production walks the symbol list three times (spans, inlined calls, "
    "final call) with two counters: `arg_counter` (index of the next original argument) and `temp_counter` (index of "
    "the next inlined result). Sibling rule on MIR: every pass iterates the symbols forward and advances the counters "
    "identically (original: arg += 1; inlined: arg += number of symbols it consumed, temp += 1); template rule: "
    "an inlined call binds `temp<temp_counter>`, receives the arguments `arg_counter + i` for i in 0..n, is wrapped as "
    "(start<t>, temp<t>, end<t>) with the same t, and the final call passes `<arg_counter>` for originals and "
    "`temp<temp_counter>` for inlined symbols; fallible inlined actions end in `)?;` (shared with C17). That the "
    "inlined grammar has the same language and conflicts is NOT decided.")


def run(tier):
    rep = Report("C14", LEVEL, tier)
    rep.explanation = EXPLANATION
    rep.not_decided = "language equivalence of the inlined grammar, the production cross product in normalize::inline, inline ordering / cycle detection"
    rep.trusted = ["rustc MIR", "syn parse of build/action.rs"]
    f = core.Facts(core.ensure_facts())
    b = f.one(r"^lalrpop::build::action::emit_inline_action_code$")
    rel = b.relfile()
    # ---- passes over data.symbols
    passes = []
    for bi, t in b.calls():
        c = callee_of(t) or ""
        if c.endswith("Iterator>::next") and "InlinedSymbol" in callee_args(t):
            fwd = "std::slice::Iter<" in callee_args(t) and "Rev<" not in callee_args(t)
            heads = [h for u, h in b.back_edges() if bi in b.loop_body(h)]
            heads.sort(key=lambda h: len(b.loop_body(h)))
            if heads:
                passes.append((bi, heads[0], fwd, t["ln"]))
    rep.floor("passes over the inlined symbol list", len(passes), 3)
    sigs = []
    for bi, h, fwd, ln in passes:
        rep.ob("pass.iterates-forward", "%s:%d loop over data.symbols" % (rel, ln), fwd,
               "a pass over the symbols of the inlined production does not run left to right", key="inline-pass-direction", file=rel, line=ln, fn=b.path)
        body = b.loop_body(h)
        sig = set()
        for blk in body:
            for s in b.blocks[blk]["s"]:
                if s["k"] == "assign" and s["r"]["k"] == "binop" and s["r"]["op"].startswith("Add"):
                    # which counter
                    names = set()
                    for o in (s["r"]["a"], s["r"]["b"]):
                        for l in core.operand_locals(o):
                            n = b.local_name(l)
                            if n in ("arg_counter", "temp_counter"):
                                names.add(n)
                    if not names:
                        continue
                    c1 = core.const_int(s["r"]["b"]) if core.const_int(s["r"]["b"]) is not None else core.const_int(s["r"]["a"])
                    if c1 is not None:
                        add = str(c1)
                    else:
                        other = s["r"]["b"] if core.operand_locals(s["r"]["a"]) and b.local_name(core.operand_locals(s["r"]["a"])[0]) in names else s["r"]["a"]
                        add = "len" if any(d[0] == "call" and d[1].endswith("::len") for d in origins(b, other)) else \
                            ("index" if any((b.local_name(l) or "") in ("i",) for l in core.operand_locals(other)) else "?")
                    # the destination decides whether it is a counter update (x = x + k flows back to the counter)
                    sig.add((sorted(names)[0], add))
        sigs.append((ln, sig))
    want = {("arg_counter", "1"), ("arg_counter", "len"), ("temp_counter", "1")}
    for ln, sig in sigs:
        core_sig = {x for x in sig if x[1] in ("1", "len")}
        rep.ob("pass.counters-advance-identically", "%s:%d %s" % (rel, ln, sorted(sig)), want <= core_sig and not {x for x in core_sig if x not in want},
               "this pass advances the counters by %s, the others by %s: inlined results and original arguments are paired with the wrong positions" % (sorted(core_sig), sorted(want)),
               key="inline-counters", file=rel, line=ln, fn=b.path)
    # ---- templates
    T = f.tmpl
    ms = sorted([m for m in T.macros if m["macro"] == "rust" and m["fmt"] and m["file"].endswith("build/action.rs") and m["fn"].endswith("emit_inline_action_code")], key=lambda m: m["seq"])
    def args(m):
        return [a["expr"].replace(" ", "") for a in m["args"]]
    bind = [m for m in ms if re.match(r"^let ·0·temp·1· = ·2·action·3··4·$", tu.cooked(m["fmt"]).strip())]
    ok = len(bind) == 1 and args(bind[0])[1] == "temp_counter" and args(bind[0])[3] == "inlined_action.index()"
    rep.ob("template.inlined-call-binds-temp-counter", [tu.cooked(m["fmt"]) for m in bind], ok,
           "the inlined call is not bound to temp<temp_counter> / does not call the inlined production's own action", key="inline-bind", file=rel, line=bind[0]["line"] if bind else 0)
    pas = [m for m in ms if tu.cooked(m["fmt"]).strip() == "·0··1·," and any(g["kind"] == "for" and "syms" in g["cond"] for g in m["guards"])]
    ok = len(pas) == 1 and args(pas[0])[1] == "arg_counter+i"
    rep.ob("template.inlined-call-arguments", [(tu.cooked(m["fmt"]), args(m)) for m in pas], ok,
           "the inlined call does not receive the arguments arg_counter + i (i in 0..n)", key="inline-args", file=rel, line=pas[0]["line"] if pas else 0)
    wrap = [m for m in ms if re.match(r"^let ·0·temp·1· = \(·2·start·3·, ·4·temp·5·, ·6·end·7·\);$", tu.cooked(m["fmt"]).strip())]
    ok = len(wrap) == 1 and all(args(wrap[0])[i] == "temp_counter" for i in (1, 3, 5, 7))
    rep.ob("template.inlined-result-wrapped-with-own-span", [tu.cooked(m["fmt"]) for m in wrap], ok,
           "the inlined result is not wrapped as (start<t>, temp<t>, end<t>) with one and the same t", key="inline-wrap", file=rel, line=wrap[0]["line"] if wrap else 0)
    fin_o = [m for m in ms if tu.cooked(m["fmt"]).strip() == "·0··1·," and any(g["kind"] == "match" and "Original" in g["pat"] for g in m["guards"])]
    fin_i = [m for m in ms if tu.cooked(m["fmt"]).strip() == "·0·temp·1·," and any(g["kind"] == "match" and "Inlined" in g["pat"] for g in m["guards"])]
    ok = len(fin_o) == 1 and args(fin_o[0])[1] == "arg_counter" and len(fin_i) == 1 and args(fin_i[0])[1] == "temp_counter"
    rep.ob("template.final-call-arguments", "originals %s inlined %s" % ([args(m) for m in fin_o], [args(m) for m in fin_i]), ok,
           "the outer action does not receive <arg_counter> for original symbols and temp<temp_counter> for inlined ones", key="inline-final-args", file=rel, line=fin_o[0]["line"] if fin_o else 0)
    q = [m for m in ms if tu.cooked(m["fmt"]).strip() == ")?;"]
    ok = len(q) == 1 and any(g["kind"] == "if" and "action_is_fallible(inlined_action)" in g["cond"].replace(" ", "") for g in q[0]["guards"])
    rep.ob("template.fallible-inlined-action-propagates", [m["guards"][-1]["cond"] for m in q if m["guards"]], ok,
           "a fallible inlined action is not propagated with `?` exactly when that inlined action is fallible", key="inline-fallible", file=rel, line=q[0]["line"] if q else 0)
    return rep
