"""Reporting: obligations, violations, known findings, evidence files (EVIDENCE.schema.json)."""
import json
import os
import time

from . import core

KNOWN = os.path.join(core.VERIF, "known_findings.json")


class Report:
    def __init__(self, prop, level, tier):
        self.prop = prop
        self.level = level
        self.tier = tier
        self.t0 = time.time()
        self.obligations = []   # dicts: id, rule, site, ok, detail
        self.violations = []    # dicts: key, rule, file, line, fn, msg
        self.analysed = {}      # free-form counts of what was analysed
        self.samples = []
        self.assumptions = []
        self.trusted = []
        self.explanation = ""
        self.not_decided = ""
        self.notes = []

    # an obligation is one rule instance on one construct
    def ob(self, rule, site, ok, detail="", key=None, file=None, line=None, fn=None):
        """Record one obligation.  When it fails, it becomes a violation keyed by `key`
        (construct-level key, never a line number)."""
        self.obligations.append({"rule": rule, "site": site, "ok": bool(ok),
                                 "detail": "" if ok else detail})
        if not ok:
            self.violations.append({
                "key": key or ("%s@%s" % (rule, site)),
                "rule": rule, "site": site, "file": file, "line": line, "fn": fn, "msg": detail})
        return ok

    def violation(self, rule, site, detail, key=None, file=None, line=None, fn=None):
        return self.ob(rule, site, False, detail, key, file, line, fn)

    def floor(self, what, count, minimum):
        """fail closed when fewer instances than confirmed by hand are found"""
        self.analysed[what] = count
        return self.ob("floor:" + what, "count=%d floor=%d" % (count, minimum), count >= minimum,
                       "instance count for %s is %d, below the floor %d confirmed by hand (rule would pass vacuously)"
                       % (what, count, minimum), key="anchor-missing:" + what)

    def anchor_missing(self, what, detail=""):
        return self.ob("anchor", what, False, "anchor missing: %s %s" % (what, detail),
                       key="anchor-missing:" + what)

    def sample(self, s):
        if len(self.samples) < 12:
            self.samples.append(s)


def load_known():
    try:
        with open(KNOWN) as fh:
            return json.load(fh)
    except FileNotFoundError:
        return {"findings": []}


def finish(rep, seed=0):
    """Write evidence, print verdict lines, return exit code."""
    known = load_known()
    open_keys = {(f["property"], f["key"]): f for f in known.get("findings", [])
                 if f.get("status") == "open"}
    new = []
    hit_known = []
    for v in rep.violations:
        k = (rep.prop, v["key"])
        if k in open_keys:
            hit_known.append((v, open_keys[k]))
        else:
            new.append(v)
    n_ob = len(rep.obligations)
    n_ok = sum(1 for o in rep.obligations if o["ok"])
    ev_dir = os.environ.get("VERIF_EVIDENCE_DIR") or os.path.join(core.VERIF, "evidence")
    os.makedirs(ev_dir, exist_ok=True)
    samples = rep.samples or [o for o in rep.obligations[:8]]
    cov = {
        "explanation": rep.explanation,
        "not_decided": rep.not_decided,
        "analysed": rep.analysed,
        "obligations": n_ob,
        "discharged": n_ok,
        "checker_cmd": "./check %s --tier %s" % (rep.prop, rep.tier),
        "trusted_base": rep.trusted,
        "samples": samples,
        "known_findings_hit": [v["key"] for v, _ in hit_known],
        "new_violations": [v["key"] for v in new],
        "failed_obligations": [o for o in rep.obligations if not o["ok"]][:20],
        "notes": rep.notes,
    }
    level = rep.level
    if level == "proof" and n_ok != n_ob:
        # a proof-level claim needs every obligation discharged; report honestly
        level = "other"
        cov["explanation"] += " [downgraded for this run: %d of %d obligations not discharged]" % (n_ob - n_ok, n_ob)
    ev = {
        "property_id": rep.prop,
        "tier": rep.tier,
        "seed": seed,
        "level": level,
        "coverage": cov,
        "assumptions": rep.assumptions,
        "wall_s": round(time.time() - rep.t0, 3),
        "violations": len(new),
    }
    with open(os.path.join(ev_dir, rep.prop + ".json"), "w") as fh:
        json.dump(ev, fh, indent=1, sort_keys=True)
        fh.write("\n")
    for v, f in hit_known:
        print("KNOWN-FINDING: property=%s %s [%s] %s" % (rep.prop, v["key"], f.get("what", ""), _loc(v)))
    code = 0
    if new:
        rdir = os.path.join(ev_dir, "replay")
        os.makedirs(rdir, exist_ok=True)
        rp = os.path.join(rdir, rep.prop + ".json")
        with open(rp, "w") as fh:
            json.dump({"property": rep.prop, "violations": new}, fh, indent=1)
        for v in new:
            print("  violation: rule=%s key=%s at %s\n    %s" % (v["rule"], v["key"], _loc(v), v["msg"]))
        print("VIOLATION property=%s replay=%s" % (rep.prop, rp))
        code = 1
    print("%s %s: %d obligations, %d discharged, %d known finding(s), %d new violation(s) [%.1fs]" % (
        rep.prop, rep.tier, n_ob, n_ok, len(hit_known), len(new), time.time() - rep.t0))
    return code


def _loc(v):
    if v.get("file"):
        return "%s:%s (%s)" % (v["file"], v.get("line"), v.get("fn") or "")
    return v.get("site") or ""
