//! tmplfacts: syntax-tree extractor for the code-emission templates of lalrpop.
//!
//! For every non-test source file given on the command line it prints JSON lines:
//!   {"rec":"macro", ...}   one per macro invocation of the formatting family
//!                          (rust!, write!, writeln!, format!, print*, panic!, ...), with
//!                          the cooked format string, argument tokens, the enclosing
//!                          item path, the *guard stack* (enclosing if/else/match arm/
//!                          loop/closure with condition tokens) and the enclosing call chain.
//!   {"rec":"lit", ...}     one per string literal outside such macros, with call chain.
//!   {"rec":"fn", ...}      one per function (path, line span).
//!   {"rec":"let", ...}     simple `let x = <expr>` bindings (tokens), used for aliases.
//! Nothing is executed; the tree is the one rustc parses (syn 2, full).
use proc_macro2::{TokenStream, TokenTree};
use quote::ToTokens;
use std::fmt::Write as _;
use syn::parse::{Parse, ParseStream, Parser};
use syn::punctuated::Punctuated;
use syn::spanned::Spanned;
use syn::visit::{self, Visit};
use syn::{Expr, Token};

fn esc(s: &str) -> String {
    let mut out = String::with_capacity(s.len() + 2);
    out.push('"');
    for c in s.chars() {
        match c {
            '"' => out.push_str("\\\""),
            '\\' => out.push_str("\\\\"),
            '\n' => out.push_str("\\n"),
            '\r' => out.push_str("\\r"),
            '\t' => out.push_str("\\t"),
            c if (c as u32) < 0x20 => {
                let _ = write!(out, "\\u{:04x}", c as u32);
            }
            c => out.push(c),
        }
    }
    out.push('"');
    out
}

fn toks<T: ToTokens>(t: &T) -> String {
    t.to_token_stream().to_string()
}

#[derive(Clone)]
struct Guard {
    kind: &'static str, // if, else, match, for, while, loop, closure, iflet
    cond: String,       // condition / scrutinee / iterator tokens
    pat: String,        // arm pattern (match), loop pattern (for), closure params
    line: usize,
    id: usize, // unique id of the guarding construct (then/else of one `if` share it)
}

struct FmtArg {
    name: Option<String>,
    expr: Expr,
}

struct FmtCall {
    writer: Option<Expr>,
    fmt: Option<syn::LitStr>,
    args: Vec<FmtArg>,
}

fn parse_fmt_call(has_writer: bool) -> impl Fn(ParseStream) -> syn::Result<FmtCall> {
    move |input: ParseStream| {
        let mut writer = None;
        if has_writer {
            writer = Some(input.parse::<Expr>()?);
            if input.is_empty() {
                return Ok(FmtCall { writer, fmt: None, args: vec![] });
            }
            input.parse::<Token![,]>()?;
        }
        if input.is_empty() {
            return Ok(FmtCall { writer, fmt: None, args: vec![] });
        }
        let fmt = if input.peek(syn::LitStr) {
            Some(input.parse::<syn::LitStr>()?)
        } else {
            // e.g. concat!(..) or a non-literal first argument
            let _e: Expr = input.parse()?;
            None
        };
        let mut args = vec![];
        while !input.is_empty() {
            input.parse::<Token![,]>()?;
            if input.is_empty() {
                break;
            }
            if input.peek(syn::Ident) && input.peek2(Token![=]) && !input.peek2(Token![==]) {
                let id: syn::Ident = input.parse()?;
                input.parse::<Token![=]>()?;
                let e: Expr = input.parse()?;
                args.push(FmtArg { name: Some(id.to_string()), expr: e });
            } else {
                let e: Expr = input.parse()?;
                args.push(FmtArg { name: None, expr: e });
            }
        }
        Ok(FmtCall { writer, fmt, args })
    }
}

struct ExprList(Punctuated<Expr, Token![,]>);
impl Parse for ExprList {
    fn parse(input: ParseStream) -> syn::Result<Self> {
        Ok(ExprList(Punctuated::parse_terminated(input)?))
    }
}

struct V {
    file: String,
    out: String,
    items: Vec<String>,      // module / impl / fn path components
    fn_stack: Vec<String>,   // joined path of enclosing fns
    guards: Vec<Guard>,
    calls: Vec<String>,      // enclosing call chain (callee tokens), innermost last
    next_id: usize,
    seq: usize,
    in_test: usize,
}

impl V {
    fn fresh(&mut self) -> usize {
        self.next_id += 1;
        self.next_id
    }
    fn cur_fn(&self) -> String {
        self.fn_stack.last().cloned().unwrap_or_default()
    }
    fn guards_json(&self) -> String {
        let mut s = String::from("[");
        for (i, g) in self.guards.iter().enumerate() {
            if i > 0 {
                s.push(',');
            }
            let _ = write!(
                s,
                "{{\"kind\":{},\"cond\":{},\"pat\":{},\"line\":{},\"id\":{}}}",
                esc(g.kind),
                esc(&g.cond),
                esc(&g.pat),
                g.line,
                g.id
            );
        }
        s.push(']');
        s
    }
    fn calls_json(&self) -> String {
        let mut s = String::from("[");
        for (i, c) in self.calls.iter().enumerate() {
            if i > 0 {
                s.push(',');
            }
            s.push_str(&esc(c));
        }
        s.push(']');
        s
    }

    fn emit_macro(&mut self, name: &str, line: usize, end_line: usize, call: &FmtCall, raw: &str) {
        self.seq += 1;
        let mut s = String::new();
        let _ = write!(
            s,
            "{{\"rec\":\"macro\",\"file\":{},\"line\":{},\"end_line\":{},\"seq\":{},\"fn\":{},\"macro\":{},\"writer\":{},\"fmt\":{},\"args\":[",
            esc(&self.file),
            line,
            end_line,
            self.seq,
            esc(&self.cur_fn()),
            esc(name),
            match &call.writer {
                Some(w) => esc(&toks(w)),
                None => "null".to_string(),
            },
            match &call.fmt {
                Some(f) => esc(&f.value()),
                None => "null".to_string(),
            }
        );
        for (i, a) in call.args.iter().enumerate() {
            if i > 0 {
                s.push(',');
            }
            let _ = write!(
                s,
                "{{\"name\":{},\"expr\":{}}}",
                match &a.name {
                    Some(n) => esc(n),
                    None => "null".to_string(),
                },
                esc(&toks(&a.expr))
            );
        }
        let _ = write!(
            s,
            "],\"guards\":{},\"calls\":{},\"raw\":{}}}\n",
            self.guards_json(),
            self.calls_json(),
            esc(raw)
        );
        self.out.push_str(&s);
    }

    fn with_guard<F: FnOnce(&mut V)>(&mut self, g: Guard, f: F) {
        self.guards.push(g);
        f(self);
        self.guards.pop();
    }
}

fn is_cfg_test(attrs: &[syn::Attribute]) -> bool {
    attrs.iter().any(|a| {
        a.path().is_ident("cfg") && {
            let t = a.meta.to_token_stream().to_string();
            t.contains("test")
        }
    })
}

const WRITER_MACROS: &[&str] = &["rust", "write", "writeln"];
const FMT_MACROS: &[&str] = &[
    "format", "print", "println", "eprint", "eprintln", "panic", "unreachable", "todo",
    "unimplemented", "format_args",
];

impl<'ast> Visit<'ast> for V {
    fn visit_item_mod(&mut self, i: &'ast syn::ItemMod) {
        if is_cfg_test(&i.attrs) {
            return;
        }
        self.items.push(i.ident.to_string());
        visit::visit_item_mod(self, i);
        self.items.pop();
    }

    fn visit_item_impl(&mut self, i: &'ast syn::ItemImpl) {
        if is_cfg_test(&i.attrs) {
            return;
        }
        if i.unsafety.is_some() {
            let _ = write!(
                self.out,
                "{{\"rec\":\"unsafe\",\"file\":{},\"line\":{},\"fn\":\"\",\"kind\":\"impl\"}}\n",
                esc(&self.file),
                i.span().start().line
            );
        }
        let selfty = toks(&*i.self_ty).replace(' ', "");
        let name = match &i.trait_ {
            Some((_, p, _)) => format!("<{} as {}>", selfty, toks(p).replace(' ', "")),
            None => selfty,
        };
        self.items.push(name);
        visit::visit_item_impl(self, i);
        self.items.pop();
    }

    fn visit_item_trait(&mut self, i: &'ast syn::ItemTrait) {
        self.items.push(i.ident.to_string());
        visit::visit_item_trait(self, i);
        self.items.pop();
    }

    fn visit_item_fn(&mut self, i: &'ast syn::ItemFn) {
        if is_cfg_test(&i.attrs) || i.attrs.iter().any(|a| a.path().is_ident("test")) {
            return;
        }
        if i.sig.unsafety.is_some() {
            let _ = write!(
                self.out,
                "{{\"rec\":\"unsafe\",\"file\":{},\"line\":{},\"fn\":{},\"kind\":\"fn\"}}\n",
                esc(&self.file),
                i.span().start().line,
                esc(&i.sig.ident.to_string())
            );
        }
        self.items.push(i.sig.ident.to_string());
        let path = self.items.join("::");
        let sp = i.span();
        let _ = write!(
            self.out,
            "{{\"rec\":\"fn\",\"file\":{},\"fn\":{},\"line\":{},\"end_line\":{}}}\n",
            esc(&self.file),
            esc(&path),
            sp.start().line,
            sp.end().line
        );
        self.fn_stack.push(path);
        let saved = std::mem::take(&mut self.guards);
        visit::visit_item_fn(self, i);
        self.guards = saved;
        self.fn_stack.pop();
        self.items.pop();
    }

    fn visit_impl_item_fn(&mut self, i: &'ast syn::ImplItemFn) {
        if is_cfg_test(&i.attrs) {
            return;
        }
        if i.sig.unsafety.is_some() {
            let _ = write!(
                self.out,
                "{{\"rec\":\"unsafe\",\"file\":{},\"line\":{},\"fn\":{},\"kind\":\"fn\"}}\n",
                esc(&self.file),
                i.span().start().line,
                esc(&i.sig.ident.to_string())
            );
        }
        self.items.push(i.sig.ident.to_string());
        let path = self.items.join("::");
        let sp = i.span();
        let _ = write!(
            self.out,
            "{{\"rec\":\"fn\",\"file\":{},\"fn\":{},\"line\":{},\"end_line\":{}}}\n",
            esc(&self.file),
            esc(&path),
            sp.start().line,
            sp.end().line
        );
        self.fn_stack.push(path);
        let saved = std::mem::take(&mut self.guards);
        visit::visit_impl_item_fn(self, i);
        self.guards = saved;
        self.fn_stack.pop();
        self.items.pop();
    }

    fn visit_trait_item_fn(&mut self, i: &'ast syn::TraitItemFn) {
        self.items.push(i.sig.ident.to_string());
        let path = self.items.join("::");
        self.fn_stack.push(path);
        visit::visit_trait_item_fn(self, i);
        self.fn_stack.pop();
        self.items.pop();
    }

    fn visit_local(&mut self, l: &'ast syn::Local) {
        if let Some(init) = &l.init {
            let _ = write!(
                self.out,
                "{{\"rec\":\"let\",\"file\":{},\"line\":{},\"fn\":{},\"pat\":{},\"init\":{},\"guards\":{}}}\n",
                esc(&self.file),
                l.span().start().line,
                esc(&self.cur_fn()),
                esc(&toks(&l.pat)),
                esc(&toks(&*init.expr)),
                self.guards_json()
            );
        }
        visit::visit_local(self, l);
    }

    fn visit_expr_unsafe(&mut self, e: &'ast syn::ExprUnsafe) {
        let _ = write!(
            self.out,
            "{{\"rec\":\"unsafe\",\"file\":{},\"line\":{},\"fn\":{},\"kind\":\"block\"}}\n",
            esc(&self.file),
            e.span().start().line,
            esc(&self.cur_fn())
        );
        visit::visit_expr_unsafe(self, e);
    }

    fn visit_item_static(&mut self, i: &'ast syn::ItemStatic) {
        let _ = write!(
            self.out,
            "{{\"rec\":\"static\",\"file\":{},\"line\":{},\"name\":{},\"mut\":{},\"ty\":{}}}\n",
            esc(&self.file),
            i.span().start().line,
            esc(&i.ident.to_string()),
            matches!(i.mutability, syn::StaticMutability::Mut(_)),
            esc(&toks(&*i.ty))
        );
        visit::visit_item_static(self, i);
    }

    fn visit_expr_if(&mut self, e: &'ast syn::ExprIf) {
        let id = self.fresh();
        let line = e.span().start().line;
        let (kind, cond, pat): (&'static str, String, String) = match &*e.cond {
            Expr::Let(l) => ("iflet", toks(&*l.expr), toks(&*l.pat)),
            c => ("if", toks(c), String::new()),
        };
        // the condition itself is evaluated unguarded
        self.visit_expr(&e.cond);
        let g = Guard { kind, cond: cond.clone(), pat: pat.clone(), line, id };
        self.with_guard(g, |v| v.visit_block(&e.then_branch));
        if let Some((_, els)) = &e.else_branch {
            let g = Guard { kind: "else", cond, pat, line, id };
            self.with_guard(g, |v| v.visit_expr(els));
        }
    }

    fn visit_expr_match(&mut self, e: &'ast syn::ExprMatch) {
        let id = self.fresh();
        self.visit_expr(&e.expr);
        let scrut = toks(&*e.expr);
        for arm in &e.arms {
            let mut pat = toks(&arm.pat);
            if let Some((_, g)) = &arm.guard {
                pat.push_str(" if ");
                pat.push_str(&toks(&**g));
            }
            let g = Guard {
                kind: "match",
                cond: scrut.clone(),
                pat,
                line: arm.span().start().line,
                id,
            };
            self.with_guard(g, |v| {
                if let Some((_, gd)) = &arm.guard {
                    v.visit_expr(gd);
                }
                v.visit_expr(&arm.body)
            });
        }
    }

    fn visit_expr_for_loop(&mut self, e: &'ast syn::ExprForLoop) {
        let id = self.fresh();
        self.visit_expr(&e.expr);
        let g = Guard {
            kind: "for",
            cond: toks(&*e.expr),
            pat: toks(&*e.pat),
            line: e.span().start().line,
            id,
        };
        self.with_guard(g, |v| v.visit_block(&e.body));
    }

    fn visit_expr_while(&mut self, e: &'ast syn::ExprWhile) {
        let id = self.fresh();
        self.visit_expr(&e.cond);
        let g = Guard {
            kind: "while",
            cond: toks(&*e.cond),
            pat: String::new(),
            line: e.span().start().line,
            id,
        };
        self.with_guard(g, |v| v.visit_block(&e.body));
    }

    fn visit_expr_loop(&mut self, e: &'ast syn::ExprLoop) {
        let id = self.fresh();
        let g = Guard {
            kind: "loop",
            cond: String::new(),
            pat: String::new(),
            line: e.span().start().line,
            id,
        };
        self.with_guard(g, |v| v.visit_block(&e.body));
    }

    fn visit_expr_closure(&mut self, e: &'ast syn::ExprClosure) {
        let id = self.fresh();
        let mut pat = String::new();
        for p in &e.inputs {
            pat.push_str(&toks(p));
            pat.push(',');
        }
        let g = Guard {
            kind: "closure",
            cond: String::new(),
            pat,
            line: e.span().start().line,
            id,
        };
        self.with_guard(g, |v| v.visit_expr(&e.body));
    }

    fn visit_expr_call(&mut self, e: &'ast syn::ExprCall) {
        self.visit_expr(&e.func);
        self.calls.push(toks(&*e.func).replace(' ', ""));
        for a in &e.args {
            self.visit_expr(a);
        }
        self.calls.pop();
    }

    fn visit_expr_method_call(&mut self, e: &'ast syn::ExprMethodCall) {
        self.visit_expr(&e.receiver);
        self.calls.push(format!(".{}", e.method));
        for a in &e.args {
            self.visit_expr(a);
        }
        self.calls.pop();
    }

    fn visit_expr_struct(&mut self, e: &'ast syn::ExprStruct) {
        let name = toks(&e.path).replace(' ', "");
        for f in &e.fields {
            self.calls.push(format!("{}{{{}}}", name, toks(&f.member)));
            self.visit_expr(&f.expr);
            self.calls.pop();
        }
        if let Some(r) = &e.rest {
            self.visit_expr(r);
        }
    }

    fn visit_lit_str(&mut self, l: &'ast syn::LitStr) {
        let _ = write!(
            self.out,
            "{{\"rec\":\"lit\",\"file\":{},\"line\":{},\"fn\":{},\"value\":{},\"calls\":{},\"guards\":{}}}\n",
            esc(&self.file),
            l.span().start().line,
            esc(&self.cur_fn()),
            esc(&l.value()),
            self.calls_json(),
            self.guards_json()
        );
    }

    fn visit_macro(&mut self, m: &'ast syn::Macro) {
        let name = m.path.segments.last().map(|s| s.ident.to_string()).unwrap_or_default();
        let line = m.span().start().line;
        let end_line = m.span().end().line;
        let raw = m.tokens.to_string();
        let is_writer = WRITER_MACROS.contains(&name.as_str());
        let is_fmt = FMT_MACROS.contains(&name.as_str());
        if is_writer || is_fmt {
            match parse_fmt_call(is_writer).parse2(m.tokens.clone()) {
                Ok(call) => {
                    self.emit_macro(&name, line, end_line, &call, &raw);
                    self.calls.push(format!("{}!", name));
                    if let Some(w) = &call.writer {
                        self.visit_expr(w);
                    }
                    for a in &call.args {
                        self.visit_expr(&a.expr);
                    }
                    self.calls.pop();
                }
                Err(_) => {
                    let _ = write!(
                        self.out,
                        "{{\"rec\":\"macro_unparsed\",\"file\":{},\"line\":{},\"fn\":{},\"macro\":{},\"raw\":{}}}\n",
                        esc(&self.file),
                        line,
                        esc(&self.cur_fn()),
                        esc(&name),
                        esc(&raw)
                    );
                }
            }
            return;
        }
        // other macros (log!, vec!, assert!, try_opt!, ...): visit their arguments when they
        // parse as a comma separated expression list, so nested format!/literals are seen
        self.seq += 1;
        let _ = write!(
            self.out,
            "{{\"rec\":\"othermacro\",\"file\":{},\"line\":{},\"seq\":{},\"fn\":{},\"macro\":{},\"guards\":{},\"raw\":{}}}\n",
            esc(&self.file),
            line,
            self.seq,
            esc(&self.cur_fn()),
            esc(&name),
            self.guards_json(),
            esc(&raw)
        );
        if let Ok(list) = syn::parse2::<ExprList>(m.tokens.clone()) {
            self.calls.push(format!("{}!", name));
            for e in list.0.iter() {
                self.visit_expr(e);
            }
            self.calls.pop();
        } else {
            // fall back: look for nested macro invocations token-wise
            scan_tokens(self, m.tokens.clone());
        }
    }
}

fn scan_tokens(v: &mut V, ts: TokenStream) {
    // find `ident ! ( ... )` sequences and re-parse them as macros
    let tts: Vec<TokenTree> = ts.into_iter().collect();
    let mut i = 0;
    while i < tts.len() {
        if let TokenTree::Group(g) = &tts[i] {
            scan_tokens(v, g.stream());
        }
        if i + 2 < tts.len() {
            if let (TokenTree::Ident(id), TokenTree::Punct(p), TokenTree::Group(g)) =
                (&tts[i], &tts[i + 1], &tts[i + 2])
            {
                if p.as_char() == '!' {
                    let mut s = TokenStream::new();
                    s.extend([tts[i].clone(), tts[i + 1].clone(), tts[i + 2].clone()]);
                    if let Ok(m) = syn::parse2::<syn::Macro>(s) {
                        let _ = (id, g);
                        v.visit_macro(&m);
                        i += 3;
                        continue;
                    }
                }
            }
        }
        i += 1;
    }
}

fn main() {
    let args: Vec<String> = std::env::args().skip(1).collect();
    let mut out = String::new();
    let mut n = 0;
    for path in &args {
        let src = match std::fs::read_to_string(path) {
            Ok(s) => s,
            Err(e) => {
                eprintln!("tmplfacts: cannot read {}: {}", path, e);
                std::process::exit(2);
            }
        };
        let file = match syn::parse_file(&src) {
            Ok(f) => f,
            Err(e) => {
                eprintln!("tmplfacts: cannot parse {}: {}", path, e);
                std::process::exit(2);
            }
        };
        let mut v = V {
            file: path.clone(),
            out: String::new(),
            items: vec![],
            fn_stack: vec![],
            guards: vec![],
            calls: vec![],
            next_id: n * 100000,
            seq: 0,
            in_test: 0,
        };
        let _ = v.in_test;
        v.visit_file(&file);
        out.push_str(&v.out);
        n += 1;
    }
    let _ = write!(out, "{{\"rec\":\"end\",\"files\":{}}}\n", n);
    print!("{}", out);
}
