//! mirfacts: a rustc driver (used through RUSTC_WORKSPACE_WRAPPER) that type-checks a crate
//! with the real build's flags and dumps facts about the resolved program as JSON lines:
//! one line per MIR body (blocks, statements, operands, constants, terminators with
//! *resolved* callees), per ADT, per static/const item and per trait impl.
//!
//! Environment:
//!   MIRFACTS_OUT     directory that receives `<crate>-<cratetype>.jsonl` (one write per process)
//!   MIRFACTS_CRATES  comma separated crate names to dump (others are compiled untouched)
#![feature(rustc_private)]

extern crate rustc_abi;
extern crate rustc_driver;
extern crate rustc_hir;
extern crate rustc_infer;
extern crate rustc_trait_selection;
extern crate rustc_interface;
extern crate rustc_middle;
extern crate rustc_session;
extern crate rustc_span;

use rustc_hir::def::DefKind;
use rustc_hir::def_id::{DefId, LOCAL_CRATE};
use rustc_middle::mir::{self, interpret::GlobalAlloc, ConstValue};
use rustc_middle::ty::print::{with_crate_prefix, with_no_trimmed_paths};
use rustc_middle::ty::{self, Instance, Ty, TyCtxt, TypingEnv};
use rustc_span::Span;
use rustc_infer::infer::TyCtxtInferExt;
use rustc_trait_selection::infer::InferCtxtExt;
use std::fmt::Write as _;

fn esc(s: &str, out: &mut String) {
    out.push('"');
    for c in s.chars() {
        match c {
            '"' => out.push_str("\\\""),
            '\\' => out.push_str("\\\\"),
            '\n' => out.push_str("\\n"),
            '\r' => out.push_str("\\r"),
            '\t' => out.push_str("\\t"),
            c if (c as u32) < 0x20 => {
                let _ = write!(out, "\\u{:04x}", c as u32);
            }
            c => out.push(c),
        }
    }
    out.push('"');
}

fn q(s: &str) -> String {
    let mut o = String::new();
    esc(s, &mut o);
    o
}

struct Cx<'tcx> {
    tcx: TyCtxt<'tcx>,
    krate: String,
}

impl<'tcx> Cx<'tcx> {
    fn path(&self, did: DefId) -> String {
        let p = with_crate_prefix!(with_no_trimmed_paths!(self.tcx.def_path_str(did)));
        self.fix(p)
    }

    fn ty(&self, t: Ty<'tcx>) -> String {
        let s = with_crate_prefix!(with_no_trimmed_paths!(t.to_string()));
        self.fix(s)
    }

    /// local paths are printed as `crate::a::b`; name the crate instead
    fn fix(&self, s: String) -> String {
        if s.contains("crate::") {
            s.replace("crate::", &format!("{}::", self.krate))
        } else {
            s
        }
    }

    fn loc(&self, sp: Span) -> (String, usize, bool, String) {
        let exp = sp.from_expansion();
        let mut mac = String::new();
        if exp {
            for (i, d) in sp.macro_backtrace().enumerate() {
                if i > 0 {
                    mac.push('<');
                }
                let _ = write!(mac, "{}", d.kind.descr());
            }
        }
        let cs = sp.source_callsite();
        let sm = self.tcx.sess.source_map();
        let l = sm.lookup_char_pos(cs.lo());
        let file = match &l.file.name {
            rustc_span::FileName::Real(r) => match r.local_path() {
                Some(p) => p.to_string_lossy().to_string(),
                None => format!("{:?}", r),
            },
            other => format!("{:?}", other),
        };
        (file, l.line, exp, mac)
    }

    fn place(&self, body: &mir::Body<'tcx>, p: &mir::Place<'tcx>) -> String {
        let mut o = String::new();
        let _ = write!(o, "{{\"l\":{},\"pr\":[", p.local.as_usize());
        let mut pty = mir::PlaceTy::from_ty(body.local_decls[p.local].ty);
        for (i, elem) in p.projection.iter().enumerate() {
            if i > 0 {
                o.push(',');
            }
            match elem {
                mir::ProjectionElem::Deref => o.push_str("[\"deref\"]"),
                mir::ProjectionElem::Field(f, fty) => {
                    let mut name = format!("{}", f.as_usize());
                    let mut owner = String::new();
                    if let ty::Adt(adt, _) = pty.ty.kind() {
                        let v = match pty.variant_index {
                            Some(v) => Some(v),
                            None if adt.is_struct() || adt.is_union() => {
                                Some(rustc_abi::FIRST_VARIANT)
                            }
                            None => None,
                        };
                        if let Some(v) = v {
                            let vd = adt.variant(v);
                            if f.as_usize() < vd.fields.len() {
                                name = vd.fields[f].name.to_string();
                            }
                            owner = format!("{}::{}", self.path(adt.did()), vd.name);
                            if adt.is_struct() || adt.is_union() {
                                owner = self.path(adt.did());
                            }
                        }
                    }
                    let _ = write!(
                        o,
                        "[\"field\",{},{},{},{}]",
                        f.as_usize(),
                        q(&name),
                        q(&owner),
                        q(&self.ty(fty))
                    );
                }
                mir::ProjectionElem::Index(l) => {
                    let _ = write!(o, "[\"index\",{}]", l.as_usize());
                }
                mir::ProjectionElem::ConstantIndex { offset, from_end, .. } => {
                    let _ = write!(o, "[\"cindex\",{},{}]", offset, from_end);
                }
                mir::ProjectionElem::Subslice { from, to, from_end } => {
                    let _ = write!(o, "[\"subslice\",{},{},{}]", from, to, from_end);
                }
                mir::ProjectionElem::Downcast(name, v) => {
                    let n = name.map(|s| s.to_string()).unwrap_or_default();
                    let _ = write!(o, "[\"downcast\",{},{}]", q(&n), v.as_usize());
                }
                mir::ProjectionElem::OpaqueCast(_) => o.push_str("[\"opaquecast\"]"),
                mir::ProjectionElem::UnwrapUnsafeBinder(_) => o.push_str("[\"unwrapbinder\"]"),
            }
            pty = pty.projection_ty(self.tcx, elem);
        }
        o.push_str("]}");
        o
    }

    fn fn_const(
        &self,
        env: TypingEnv<'tcx>,
        did: DefId,
        args: ty::GenericArgsRef<'tcx>,
    ) -> String {
        let decl = self.path(did);
        let argstr = self.fix(with_crate_prefix!(with_no_trimmed_paths!(format!("{:?}", args))));
        let mut resolved = String::new();
        let mut rkind = "none";
        if let Ok(Some(inst)) = Instance::try_resolve(self.tcx, env, did, args) {
            resolved = self.path(inst.def_id());
            rkind = match inst.def {
                ty::InstanceKind::Item(_) => "item",
                ty::InstanceKind::Virtual(..) => "virtual",
                ty::InstanceKind::ClosureOnceShim { .. } => "closure_once",
                ty::InstanceKind::FnPtrShim(..) => "fnptr",
                ty::InstanceKind::CloneShim(..) => "clone_shim",
                ty::InstanceKind::DropGlue(..) => "drop_glue",
                ty::InstanceKind::Intrinsic(..) => "intrinsic",
                ty::InstanceKind::ReifyShim(..) => "reify",
                _ => "other",
            };
        }
        format!(
            "{{\"fn\":{},\"args\":{},\"res\":{},\"rk\":{}}}",
            q(&decl),
            q(&argstr),
            q(&resolved),
            q(rkind)
        )
    }

    fn constant(&self, env: TypingEnv<'tcx>, c: &mir::ConstOperand<'tcx>) -> String {
        let t = c.const_.ty();
        let tys = self.ty(t);
        let v: String = match t.kind() {
            ty::FnDef(did, args) => self.fn_const(env, *did, args),
            ty::Closure(did, _) => format!("{{\"closure\":{}}}", q(&self.path(*did))),
            ty::Bool | ty::Int(_) | ty::Uint(_) | ty::Char => {
                match c.const_.try_eval_scalar_int(self.tcx, env) {
                    Some(si) => {
                        let size = si.size();
                        match t.kind() {
                            ty::Bool => format!("{{\"bool\":{}}}", si.to_uint(size) != 0),
                            ty::Int(_) => format!("{{\"int\":{}}}", si.to_int(size)),
                            ty::Char => {
                                let u = si.to_uint(size) as u32;
                                let ch = char::from_u32(u).unwrap_or('\u{fffd}');
                                format!("{{\"int\":{},\"char\":{}}}", u, q(&ch.to_string()))
                            }
                            _ => format!("{{\"int\":{}}}", si.to_uint(size)),
                        }
                    }
                    None => format!("{{\"other\":{}}}", q(&format!("{:?}", c.const_))),
                }
            }
            ty::Ref(_, inner, _) if inner.is_str() => {
                let mut s = None;
                if let Ok(cv) = c.const_.eval(self.tcx, env, c.span) {
                    if let ConstValue::Slice { .. } | ConstValue::Indirect { .. } = cv {
                        if let Some(b) = cv.try_get_slice_bytes_for_diagnostics(self.tcx) {
                            s = Some(String::from_utf8_lossy(b).to_string());
                        }
                    }
                }
                match s {
                    Some(s) => format!("{{\"str\":{}}}", q(&s)),
                    None => format!("{{\"other\":{}}}", q(&format!("{:?}", c.const_))),
                }
            }
            _ => {
                // promoted constants / statics / aggregates: keep a debug rendering and,
                // for pointers to statics, the static's path
                let mut extra = String::new();
                if let mir::Const::Val(ConstValue::Scalar(sc), _) = c.const_ {
                    if let rustc_middle::mir::interpret::Scalar::Ptr(p, _) = sc {
                        let aid = p.provenance.alloc_id();
                        if let GlobalAlloc::Static(sd) = self.tcx.global_alloc(aid) {
                            extra = self.path(sd);
                        }
                    }
                }
                if let mir::Const::Unevaluated(u, _) = c.const_ {
                    let p = self.path(u.def);
                    match u.promoted {
                        Some(pr) => {
                            format!("{{\"promoted\":{},\"of\":{}}}", pr.as_usize(), q(&p))
                        }
                        None => format!("{{\"unevaluated\":{}}}", q(&p)),
                    }
                } else if !extra.is_empty() {
                    format!("{{\"static\":{}}}", q(&extra))
                } else {
                    format!("{{\"other\":{}}}", q(&with_no_trimmed_paths!(format!("{}", c.const_))))
                }
            }
        };
        format!("{{\"k\":\"const\",\"ty\":{},\"v\":{}}}", q(&tys), v)
    }

    fn operand(
        &self,
        env: TypingEnv<'tcx>,
        body: &mir::Body<'tcx>,
        op: &mir::Operand<'tcx>,
    ) -> String {
        match op {
            mir::Operand::Copy(p) => format!("{{\"k\":\"copy\",\"p\":{}}}", self.place(body, p)),
            mir::Operand::Move(p) => format!("{{\"k\":\"move\",\"p\":{}}}", self.place(body, p)),
            mir::Operand::Constant(c) => self.constant(env, c),
            #[allow(unreachable_patterns)]
            _ => "{\"k\":\"otherop\"}".to_string(),
        }
    }

    fn rvalue(
        &self,
        env: TypingEnv<'tcx>,
        body: &mir::Body<'tcx>,
        rv: &mir::Rvalue<'tcx>,
    ) -> String {
        match rv {
            mir::Rvalue::Use(op, ..) => {
                format!("{{\"k\":\"use\",\"o\":{}}}", self.operand(env, body, op))
            }
            mir::Rvalue::Repeat(op, _) => {
                format!("{{\"k\":\"repeat\",\"o\":{}}}", self.operand(env, body, op))
            }
            mir::Rvalue::Ref(_, bk, p) => {
                let m = matches!(bk, mir::BorrowKind::Mut { .. });
                format!("{{\"k\":\"ref\",\"mut\":{},\"p\":{}}}", m, self.place(body, p))
            }
            mir::Rvalue::ThreadLocalRef(d) => {
                format!("{{\"k\":\"tlref\",\"def\":{}}}", q(&self.path(*d)))
            }
            mir::Rvalue::RawPtr(k, p) => {
                let m = matches!(k, mir::RawPtrKind::Mut);
                format!("{{\"k\":\"rawptr\",\"mut\":{},\"p\":{}}}", m, self.place(body, p))
            }
            mir::Rvalue::Cast(ck, op, t) => format!(
                "{{\"k\":\"cast\",\"ck\":{},\"o\":{},\"ty\":{}}}",
                q(&format!("{:?}", ck)),
                self.operand(env, body, op),
                q(&self.ty(*t))
            ),
            mir::Rvalue::BinaryOp(bop, ab) => format!(
                "{{\"k\":\"binop\",\"op\":{},\"a\":{},\"b\":{}}}",
                q(&format!("{:?}", bop)),
                self.operand(env, body, &ab.0),
                self.operand(env, body, &ab.1)
            ),
            mir::Rvalue::UnaryOp(uop, op) => format!(
                "{{\"k\":\"unop\",\"op\":{},\"o\":{}}}",
                q(&format!("{:?}", uop)),
                self.operand(env, body, op)
            ),
            mir::Rvalue::Discriminant(p) => {
                format!("{{\"k\":\"discr\",\"p\":{}}}", self.place(body, p))
            }
            mir::Rvalue::Aggregate(kind, ops) => {
                let mut o = String::from("{\"k\":\"agg\",");
                match &**kind {
                    mir::AggregateKind::Array(_) => o.push_str("\"ak\":\"array\","),
                    mir::AggregateKind::Tuple => o.push_str("\"ak\":\"tuple\","),
                    mir::AggregateKind::Adt(did, vidx, _, _, _) => {
                        let adt = self.tcx.adt_def(*did);
                        let v = adt.variant(*vidx);
                        let _ = write!(
                            o,
                            "\"ak\":\"adt\",\"adt\":{},\"variant\":{},\"vidx\":{},\"fields\":[",
                            q(&self.path(*did)),
                            q(&v.name.to_string()),
                            vidx.as_usize()
                        );
                        for (i, f) in v.fields.iter().enumerate() {
                            if i > 0 {
                                o.push(',');
                            }
                            o.push_str(&q(&f.name.to_string()));
                        }
                        o.push_str("],");
                    }
                    mir::AggregateKind::Closure(did, _) => {
                        let _ =
                            write!(o, "\"ak\":\"closure\",\"closure\":{},", q(&self.path(*did)));
                    }
                    _ => o.push_str("\"ak\":\"other\","),
                }
                o.push_str("\"ops\":[");
                for (i, op) in ops.iter().enumerate() {
                    if i > 0 {
                        o.push(',');
                    }
                    o.push_str(&self.operand(env, body, op));
                }
                o.push_str("]}");
                o
            }
            mir::Rvalue::CopyForDeref(p) => {
                format!("{{\"k\":\"copyforderef\",\"p\":{}}}", self.place(body, p))
            }
            mir::Rvalue::WrapUnsafeBinder(op, _) => {
                format!("{{\"k\":\"use\",\"o\":{}}}", self.operand(env, body, op))
            }
            #[allow(unreachable_patterns)]
            _ => "{\"k\":\"otherrv\"}".to_string(),
        }
    }

    fn span_fields(&self, sp: Span) -> String {
        let (file, line, exp, mac) = self.loc(sp);
        let _ = file;
        if exp {
            format!("\"ln\":{},\"exp\":true,\"mac\":{}", line, q(&mac))
        } else {
            format!("\"ln\":{}", line)
        }
    }

    fn body(&self, did: DefId, lite: bool, out: &mut String) {
        let body = self.tcx.optimized_mir(did);
        self.body_inner(did, body, None, lite, out);
        if !lite {
            for (pi, pb) in self.tcx.promoted_mir(did).iter_enumerated() {
                self.body_inner(did, pb, Some(pi.as_usize()), lite, out);
            }
        }
    }

    fn body_inner(
        &self,
        did: DefId,
        body: &mir::Body<'tcx>,
        promoted: Option<usize>,
        lite: bool,
        out: &mut String,
    ) {
        let tcx = self.tcx;
        let kind = tcx.def_kind(did);
        let env = TypingEnv::post_analysis(tcx, did);
        let (file, line, _, _) = self.loc(tcx.def_span(did));
        let sm = tcx.sess.source_map();
        let end_line = sm.lookup_char_pos(body.span.hi()).line;
        let kind_s = match (kind, promoted) {
            (_, Some(_)) => "promoted",
            (DefKind::Fn, _) => "fn",
            (DefKind::AssocFn, _) => "assoc",
            (DefKind::Closure, _) => "closure",
            _ => "other",
        };
        let self_path = match promoted {
            Some(n) => format!("{}::{{promoted#{}}}", self.path(did), n),
            None => self.path(did),
        };
        let parent = tcx.opt_parent(did).map(|p| self.path(p)).unwrap_or_default();
        let _ = write!(
            out,
            "{{\"rec\":\"body\",\"path\":{},\"crate\":{},\"kind\":{},\"parent\":{},\"file\":{},\"line\":{},\"end_line\":{},\"argc\":{},\"lite\":{},",
            q(&self_path),
            q(&self.krate),
            q(kind_s),
            q(&parent),
            q(&file),
            line,
            end_line,
            body.arg_count,
            lite
        );
        // locals
        out.push_str("\"locals\":[");
        let mut names: Vec<Option<String>> = vec![None; body.local_decls.len()];
        for vdi in &body.var_debug_info {
            if let mir::VarDebugInfoContents::Place(p) = &vdi.value {
                if p.projection.is_empty() {
                    names[p.local.as_usize()] = Some(vdi.name.to_string());
                }
            }
        }
        for (i, (l, d)) in body.local_decls.iter_enumerated().enumerate() {
            if i > 0 {
                out.push(',');
            }
            let n = match &names[l.as_usize()] {
                Some(n) => q(n),
                None => "null".to_string(),
            };
            if lite {
                // generated parser (40 kLOC): keep only types that matter to the order rules
                let t = self.ty(d.ty);
                let keep = t.contains("hash") || t.contains("Hash");
                let _ = write!(out, "{{\"ty\":{},\"name\":{}}}", q(if keep { &t } else { "" }), n);
            } else {
                let _ = write!(out, "{{\"ty\":{},\"name\":{}}}", q(&self.ty(d.ty)), n);
            }
        }
        out.push_str("],");
        // upvar debug info (closures): name -> field index of _1
        out.push_str("\"upvars\":[");
        let mut first = true;
        for vdi in &body.var_debug_info {
            if let mir::VarDebugInfoContents::Place(p) = &vdi.value {
                if !p.projection.is_empty() {
                    if !first {
                        out.push(',');
                    }
                    first = false;
                    let _ = write!(
                        out,
                        "{{\"name\":{},\"p\":{}}}",
                        q(&vdi.name.to_string()),
                        self.place(body, p)
                    );
                }
            }
        }
        out.push_str("],\"blocks\":[");
        for (bi, (_bb, data)) in body.basic_blocks.iter_enumerated().enumerate() {
            if bi > 0 {
                out.push(',');
            }
            let _ = write!(out, "{{\"cleanup\":{},\"s\":[", data.is_cleanup);
            if !lite {
                let mut firsts = true;
                for st in &data.statements {
                    let s = match &st.kind {
                        mir::StatementKind::Assign(b) => {
                            let (p, rv) = &**b;
                            Some(format!(
                                "{{\"k\":\"assign\",\"p\":{},\"r\":{},{}}}",
                                self.place(body, p),
                                self.rvalue(env, body, rv),
                                self.span_fields(st.source_info.span)
                            ))
                        }
                        mir::StatementKind::SetDiscriminant { place, variant_index } => {
                            Some(format!(
                                "{{\"k\":\"setdiscr\",\"p\":{},\"v\":{},{}}}",
                                self.place(body, place),
                                variant_index.as_usize(),
                                self.span_fields(st.source_info.span)
                            ))
                        }
                        mir::StatementKind::Intrinsic(_) => Some(format!(
                            "{{\"k\":\"intrinsic\",{}}}",
                            self.span_fields(st.source_info.span)
                        )),
                        _ => None,
                    };
                    if let Some(s) = s {
                        if !firsts {
                            out.push(',');
                        }
                        firsts = false;
                        out.push_str(&s);
                    }
                }
            }
            out.push_str("],\"t\":");
            let term = data.terminator();
            let sf = self.span_fields(term.source_info.span);
            let bbn = |b: &mir::BasicBlock| b.as_usize();
            let unwind = |u: &mir::UnwindAction| match u {
                mir::UnwindAction::Cleanup(b) => format!("{}", b.as_usize()),
                _ => "null".to_string(),
            };
            match &term.kind {
                mir::TerminatorKind::Goto { target } => {
                    let _ = write!(out, "{{\"k\":\"goto\",\"t\":{},{}}}", bbn(target), sf);
                }
                mir::TerminatorKind::SwitchInt { discr, targets } => {
                    let _ = write!(
                        out,
                        "{{\"k\":\"switch\",\"o\":{},\"oty\":{},\"targets\":[",
                        self.operand(env, body, discr),
                        q(&self.ty(discr.ty(&body.local_decls, tcx)))
                    );
                    for (i, (v, t)) in targets.iter().enumerate() {
                        if i > 0 {
                            out.push(',');
                        }
                        let _ = write!(out, "[{},{}]", v, bbn(&t));
                    }
                    let _ = write!(out, "],\"otherwise\":{},{}}}", bbn(&targets.otherwise()), sf);
                }
                mir::TerminatorKind::UnwindResume => {
                    let _ = write!(out, "{{\"k\":\"resume\",{}}}", sf);
                }
                mir::TerminatorKind::UnwindTerminate(_) => {
                    let _ = write!(out, "{{\"k\":\"terminate\",{}}}", sf);
                }
                mir::TerminatorKind::Return => {
                    let _ = write!(out, "{{\"k\":\"return\",{}}}", sf);
                }
                mir::TerminatorKind::Unreachable => {
                    let _ = write!(out, "{{\"k\":\"unreachable\",{}}}", sf);
                }
                mir::TerminatorKind::Drop { place, target, unwind: u, .. } => {
                    let _ = write!(
                        out,
                        "{{\"k\":\"drop\",\"p\":{},\"pty\":{},\"t\":{},\"unwind\":{},{}}}",
                        self.place(body, place),
                        q(&self.ty(place.ty(&body.local_decls, tcx).ty)),
                        bbn(target),
                        unwind(u),
                        sf
                    );
                }
                mir::TerminatorKind::Call { func, args, destination, target, unwind: u, .. } => {
                    let _ = write!(
                        out,
                        "{{\"k\":\"call\",\"f\":{},\"args\":[",
                        self.operand(env, body, func)
                    );
                    for (i, a) in args.iter().enumerate() {
                        if i > 0 {
                            out.push(',');
                        }
                        out.push_str(&self.operand(env, body, &a.node));
                    }
                    let t = match target {
                        Some(t) => format!("{}", bbn(t)),
                        None => "null".to_string(),
                    };
                    let _ = write!(
                        out,
                        "],\"dest\":{},\"t\":{},\"unwind\":{},{}}}",
                        self.place(body, destination),
                        t,
                        unwind(u),
                        sf
                    );
                }
                mir::TerminatorKind::TailCall { func, args, .. } => {
                    let _ = write!(
                        out,
                        "{{\"k\":\"tailcall\",\"f\":{},\"args\":[",
                        self.operand(env, body, func)
                    );
                    for (i, a) in args.iter().enumerate() {
                        if i > 0 {
                            out.push(',');
                        }
                        out.push_str(&self.operand(env, body, &a.node));
                    }
                    let _ = write!(out, "],{}}}", sf);
                }
                mir::TerminatorKind::Assert { cond, expected, msg, target, unwind: u } => {
                    let m = match &**msg {
                        mir::AssertKind::BoundsCheck { .. } => "bounds".to_string(),
                        mir::AssertKind::Overflow(op, ..) => format!("overflow:{:?}", op),
                        mir::AssertKind::OverflowNeg(_) => "overflow:Neg".to_string(),
                        mir::AssertKind::DivisionByZero(_) => "div0".to_string(),
                        mir::AssertKind::RemainderByZero(_) => "rem0".to_string(),
                        _ => "other".to_string(),
                    };
                    let _ = write!(
                        out,
                        "{{\"k\":\"assert\",\"c\":{},\"expected\":{},\"msg\":{},\"t\":{},\"unwind\":{},{}}}",
                        self.operand(env, body, cond),
                        expected,
                        q(&m),
                        bbn(target),
                        unwind(u),
                        sf
                    );
                }
                mir::TerminatorKind::FalseEdge { real_target, .. } => {
                    let _ = write!(out, "{{\"k\":\"goto\",\"t\":{},{}}}", bbn(real_target), sf);
                }
                mir::TerminatorKind::FalseUnwind { real_target, .. } => {
                    let _ = write!(out, "{{\"k\":\"goto\",\"t\":{},{}}}", bbn(real_target), sf);
                }
                _ => {
                    let _ = write!(out, "{{\"k\":\"otherterm\",{}}}", sf);
                }
            }
            out.push('}');
        }
        out.push_str("]}\n");
    }

    fn adt(&self, did: DefId, out: &mut String) {
        let tcx = self.tcx;
        let adt = tcx.adt_def(did);
        let generics = tcx.generics_of(did);
        let ngen = generics.own_params.len();
        let (file, line, _, _) = self.loc(tcx.def_span(did));
        let _ = write!(
            out,
            "{{\"rec\":\"adt\",\"path\":{},\"crate\":{},\"kind\":{},\"file\":{},\"line\":{},\"generics\":[",
            q(&self.path(did)),
            q(&self.krate),
            q(if adt.is_enum() { "enum" } else if adt.is_union() { "union" } else { "struct" }),
            q(&file),
            line
        );
        for (i, p) in generics.own_params.iter().enumerate() {
            if i > 0 {
                out.push(',');
            }
            out.push_str(&q(&p.name.to_string()));
        }
        out.push_str("],");
        // freeze / send / sync for monomorphic ADTs
        if ngen == 0 {
            let env = TypingEnv::post_analysis(tcx, did);
            let t = tcx.type_of(did).instantiate_identity().skip_norm_wip();
            let _ = write!(out, "\"freeze\":{},", t.is_freeze(tcx, env));
            let infcx = tcx.infer_ctxt().build(ty::TypingMode::non_body_analysis());
            for (name, sym) in [("send", rustc_span::sym::Send), ("sync", rustc_span::sym::Sync)] {
                if let Some(tr) = tcx.get_diagnostic_item(sym) {
                    let r = infcx
                        .type_implements_trait(tr, [t], env.param_env)
                        .must_apply_modulo_regions();
                    let _ = write!(out, "\"{}\":{},", name, r);
                }
            }
        }
        out.push_str("\"variants\":[");
        for (vi, v) in adt.variants().iter().enumerate() {
            if vi > 0 {
                out.push(',');
            }
            let _ = write!(out, "{{\"name\":{},\"fields\":[", q(&v.name.to_string()));
            for (fi, f) in v.fields.iter().enumerate() {
                if fi > 0 {
                    out.push(',');
                }
                let fty = tcx.type_of(f.did).instantiate_identity().skip_norm_wip();
                let vis = format!("{:?}", f.vis);
                let _ = write!(
                    out,
                    "{{\"name\":{},\"ty\":{},\"pub\":{}}}",
                    q(&f.name.to_string()),
                    q(&self.ty(fty)),
                    vis.contains("Public")
                );
            }
            out.push_str("]}");
        }
        out.push_str("]}\n");
    }

    fn item(&self, did: DefId, kind: DefKind, out: &mut String) {
        let tcx = self.tcx;
        let (file, line, exp, mac) = self.loc(tcx.def_span(did));
        let t = tcx.type_of(did).instantiate_identity().skip_norm_wip();
        let env = TypingEnv::post_analysis(tcx, did);
        let generic = tcx.generics_of(did).count() > 0;
        let freeze = if generic { true } else { t.is_freeze(tcx, env) };
        let (k, mutbl, tl) = match kind {
            DefKind::Static { mutability, .. } => (
                "static",
                mutability.is_mut(),
                tcx.codegen_fn_attrs(did)
                    .flags
                    .contains(rustc_middle::middle::codegen_fn_attrs::CodegenFnAttrFlags::THREAD_LOCAL),
            ),
            _ => ("const", false, false),
        };
        let _ = write!(
            out,
            "{{\"rec\":\"item\",\"path\":{},\"crate\":{},\"kind\":{},\"ty\":{},\"mut\":{},\"thread_local\":{},\"freeze\":{},\"file\":{},\"line\":{},\"exp\":{},\"mac\":{}}}\n",
            q(&self.path(did)),
            q(&self.krate),
            q(k),
            q(&self.ty(t)),
            mutbl,
            tl,
            freeze,
            q(&file),
            line,
            exp,
            q(&mac)
        );
    }

    fn impl_(&self, did: DefId, out: &mut String) {
        let tcx = self.tcx;
        let (file, line, exp, mac) = self.loc(tcx.def_span(did));
        let self_ty = tcx.type_of(did).instantiate_identity().skip_norm_wip();
        let tr = tcx.impl_opt_trait_ref(did).map(|t| {
            let t = t.instantiate_identity().skip_norm_wip();
            (self.path(t.def_id), self.fix(with_crate_prefix!(with_no_trimmed_paths!(format!("{:?}", t.args)))))
        });
        let (tp, ta) = tr.unwrap_or_default();
        let _ = write!(
            out,
            "{{\"rec\":\"impl\",\"crate\":{},\"self\":{},\"trait\":{},\"trait_args\":{},\"derived\":{},\"file\":{},\"line\":{},\"exp\":{},\"mac\":{}}}\n",
            q(&self.krate),
            q(&self.ty(self_ty)),
            q(&tp),
            q(&ta),
            tcx.is_automatically_derived(did),
            q(&file),
            line,
            exp,
            q(&mac)
        );
    }
}

struct Cb {
    out_dir: String,
    cfgs: Vec<String>,
    crate_type: String,
}

impl rustc_driver::Callbacks for Cb {
    fn after_analysis<'tcx>(
        &mut self,
        _compiler: &rustc_interface::interface::Compiler,
        tcx: TyCtxt<'tcx>,
    ) -> rustc_driver::Compilation {
        let krate = tcx.crate_name(LOCAL_CRATE).to_string();
        let cx = Cx { tcx, krate: krate.clone() };
        let mut out = String::with_capacity(1 << 24);
        let mut cfgs = self.cfgs.clone();
        cfgs.sort();
        let _ = write!(
            out,
            "{{\"rec\":\"crate\",\"crate\":{},\"crate_type\":{},\"cfg\":[",
            q(&krate),
            q(&self.crate_type)
        );
        for (i, c) in cfgs.iter().enumerate() {
            if i > 0 {
                out.push(',');
            }
            out.push_str(&q(c));
        }
        out.push_str("]}\n");
        let mut n_bodies = 0usize;
        for ldid in tcx.mir_keys(()) {
            let did = ldid.to_def_id();
            let kind = tcx.def_kind(did);
            match kind {
                DefKind::Fn | DefKind::AssocFn | DefKind::Closure => {}
                _ => continue,
            }
            if tcx.is_coroutine(did) {
                continue;
            }
            let (file, _, _, _) = cx.loc(tcx.def_span(did));
            let lite = file.ends_with("parser/lrgrammar.rs");
            cx.body(did, lite, &mut out);
            n_bodies += 1;
        }
        for ldid in tcx.hir_crate_items(()).definitions() {
            let did = ldid.to_def_id();
            match tcx.def_kind(did) {
                DefKind::Struct | DefKind::Enum | DefKind::Union => cx.adt(did, &mut out),
                k @ (DefKind::Static { .. } | DefKind::Const { .. }) => cx.item(did, k, &mut out),
                DefKind::Impl { .. } => cx.impl_(did, &mut out),
                _ => {}
            }
        }
        let _ = write!(out, "{{\"rec\":\"end\",\"crate\":{},\"bodies\":{}}}\n", q(&krate), n_bodies);
        let path = format!("{}/{}-{}.jsonl", self.out_dir, krate, self.crate_type);
        std::fs::write(&path, out).expect("mirfacts: cannot write facts file");
        rustc_driver::Compilation::Continue
    }
}

struct NoCb;
impl rustc_driver::Callbacks for NoCb {}

fn main() {
    let mut args: Vec<String> = std::env::args().collect();
    // RUSTC_WORKSPACE_WRAPPER passes the real rustc as argv[1]
    if args.len() > 1 && (args[1].ends_with("rustc") || args[1].contains("/rustc")) {
        args.remove(1);
    }
    let out_dir = std::env::var("MIRFACTS_OUT").unwrap_or_default();
    let crates = std::env::var("MIRFACTS_CRATES").unwrap_or_default();
    let mut crate_name = String::new();
    let mut crate_type = String::from("lib");
    let mut cfgs = vec![];
    let mut i = 0;
    while i < args.len() {
        if args[i] == "--crate-name" && i + 1 < args.len() {
            crate_name = args[i + 1].clone();
        }
        if args[i] == "--crate-type" && i + 1 < args.len() {
            crate_type = args[i + 1].clone();
        }
        if args[i] == "--cfg" && i + 1 < args.len() {
            cfgs.push(args[i + 1].clone());
        }
        if args[i] == "--test" {
            crate_type = "test".to_string();
        }
        i += 1;
    }
    let wanted = !out_dir.is_empty()
        && !crate_name.is_empty()
        && crates.split(',').any(|c| c == crate_name)
        && !args.iter().any(|a| a == "--print" || a.starts_with("--print="))
        && !args.iter().any(|a| a == "-vV");
    if wanted {
        let mut cb = Cb { out_dir, cfgs, crate_type };
        rustc_driver::run_compiler(&args, &mut cb);
    } else {
        rustc_driver::run_compiler(&args, &mut NoCb);
    }
}
