#!/usr/bin/env python3
"""Regenerate MANIFEST.json from the table below (single source of truth for claimed checks)."""
import json, os
V = os.path.dirname(os.path.dirname(os.path.abspath(__file__)))
props = [json.loads(l) for l in open(os.path.join(V, "properties.jsonl"))]

CLAIMED = {
 "C21": dict(level="proof", design="§2 C21", technique="static analysis: dominance / reachability / value-flow rules over the rustc MIR of the rebuild protocol (lalrpop::build), plus abstract interpretation of the gate's boolean",
   text="Every obligation O1-O5 of the rebuild protocol is discharged on the MIR control-flow graph of the output writer and the rebuild gate (all paths, hence all histories of build calls by induction over one call). It decides the protocol clause, not that generation itself is deterministic (C20).",
   note="assumes sequential histories, SHA3 collision freedom, std::fs semantics; trusted: rustc MIR + callee resolution, effect table"),
 "C22": dict(level="proof", design="§2 C22", technique="static analysis: post-dominance and who-writes-what rules over the rustc MIR of the output writer (atomic publish: create tmp, write, rename)",
   text="Atomic-publish obligations (no create at the final path, all writes to the created temp file dominate a rename into place that post-dominates creation and is the last effect) hold on every path of the writer's CFG; every crash point only truncates such a path.",
   note="crash = process kill or failing write (not power loss: no fsync obligation); POSIX rename atomicity"),
}
NA = {}
try:
    exec(open(os.path.join(V, "tools", "manifest_table.py")).read())
except FileNotFoundError:
    pass

checks = []
for p in props:
    pid = p["id"]
    if pid in CLAIMED:
        c = CLAIMED[pid]
        checks.append({
            "property_id": pid,
            "quick_cmd": "./check %s --tier quick" % pid,
            "thorough_cmd": "./check %s --tier thorough" % pid,
            "evidence_file": "/verif/evidence/%s.json" % pid,
            "replay_cmd_template": "./check %s --replay {path}" % pid,
            "engine": c.get("engine", "mirfacts+tmplfacts+rules"),
            "level_claimed": {"category": c["level"], "text": c["text"], "design_ref": c["design"]},
            "level_note": c["note"],
            "technique": c["technique"],
        })
na = []
for p in props:
    if p["id"] not in CLAIMED:
        na.append({"property_id": p["id"], "reason": NA.get(p["id"], "check not built yet (in progress)")})
m = {
 "version": 1,
 "setup_cmd": "./setup.sh",
 "hooks": {"guard": "lalrpop_verif", "enable": "none needed: static analysis, no instrumentation in /repo", "baseline_off_cmd": "cd /repo && cargo test --workspace --no-fail-fast --offline", "source_commits": [], "add_only": True},
 "engines": [
  {"name": "mirfacts", "path": "engines/mirfacts", "kind_free_text": "rustc_private driver (nightly) run as RUSTC_WORKSPACE_WRAPPER under cargo check: dumps MIR with resolved callees, ADTs, statics, impls as JSON", "serves_properties": sorted(CLAIMED)},
  {"name": "tmplfacts", "path": "engines/tmplfacts", "kind_free_text": "syn 2 syntax-tree extractor for the code-emission templates (rust!/write!/format! sites with guard stacks)", "serves_properties": sorted(CLAIMED)},
  {"name": "rules", "path": "rules", "kind_free_text": "Python: CFG/dominators/value-flow slicing/effect summaries/abstract interpretation over the facts; one module per property", "serves_properties": sorted(CLAIMED)},
 ],
 "checks": checks,
 "not_applicable": na,
 "notes": "All checks are static analyses of /repo's current working tree (facts are re-extracted whenever a source file changes; cache keyed by content hash). See DESIGN.md.",
}
json.dump(m, open(os.path.join(V, "MANIFEST.json"), "w"), indent=1)
print("claimed:", sorted(CLAIMED), "n/a:", len(na))
