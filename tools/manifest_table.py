CLAIMED.update({
 "C20": dict(level="proof", design="§2 C20", technique="static analysis: type-based lint over all MIR bodies (hash-iterator types, generic arguments), static/thread-local inventory with RAII-writer rule, who-may-call denylist for ambient sources, taint of timestamps",
   text="Sound over-approximation for the generator process: every MIR body of the lalrpop crate is scanned; any evidence of hash-order iteration, mutable global state outside two RAII-scoped thread-locals, ambient source (time/random/env/pid/addresses) or unsorted directory walk is an undischarged obligation. No such source => equal bytes across runs, processes and batches.",
   note="trusted: rustc types; BTreeMap/Vec/petgraph/ena/bit-set iterate deterministically; string_cache::Atom orders by content; frozen exception tables (1 hash site, 5 configuration env reads) in rules/c20.py"),
})
CLAIMED.update({
 "C28": dict(level="proof", design="§2 C28", technique="static analysis: symbolic (term-level) evaluation of the MIR of map_intern/map_location/map_token/map_error/From::from and comparison with the term prescribed by the ParseError ADT definition",
   text="Clause decided: the three maps and From<E>. Every return path of map_intern is evaluated to a term over its inputs (closure inlined); one obligation per variant, field and tuple position. By parametricity in L,T,E term equality is a full functional specification. The Display strings are NOT decided.",
   note="trusted: rustc MIR, the term evaluator (rules/symex.py); user closures are uninterpreted symbols"),
})
CLAIMED.update({
 "C27": dict(level="proof", design="§2 C27", technique="static analysis: rustc auto-trait/Freeze queries on the runtime types (custom driver) + syntax-tree lint over all code-emission templates (no static/thread_local/unsafe/interior mutability; Parser struct fields; parse(&self))",
   text="Whole property at the type level: MatcherBuilder is Send+Sync+Freeze (rustc queries), the per-parse Matcher owns its cache, lalrpop-util has no shared mutable items and no unsafe, and no template can emit shared mutable state; so concurrent parse(&self) calls share only immutable data and cannot interfere.",
   note="trusted: rustc's Send/Sync/Freeze reasoning and aliasing rules; regex-automata DFA immutability; user action code out of scope"),
})
CLAIMED.update({
 "C08": dict(level="other", design="§2 C08", technique="static analysis: path rule over the MIR CFG of Matcher::next (progress test on the consumed length guards every token return and loop back edge) and dominance rule in Parser::parse (pull only after shift)",
   text="Decides only the lexer-progress and pull-discipline clauses (necessary conditions of termination): every returned token / skip-loop iteration consumed >= 1 byte, text advances by that length, one pull per shift. Does NOT decide bounded reductions, recovery termination or panic freedom (table invariants).",
   note="trusted: rustc MIR; regex-automata stepping terminates"),
})
CLAIMED.update({
 "C04": dict(level="other", design="§2 C04", technique="static analysis: who-may-call, must-not-pass-through and dominance rules over the MIR of lalrpop_util::state_machine; value-flow of last_location; template sequence rule for the recursive-ascent error arm",
   text="Decides the no-read-ahead and EOF-location clauses: the token iterator is pulled only in next_token (called from parse/error_recovery only); without `!` error_recovery returns the error without pulling, reducing or calling the definition; recovery is entered only on the None side of the action decodes; last_location comes from the pulled triple's end / start_location. The viable-prefix property of the tables is NOT decided.",
   note="trusted: rustc MIR and callee resolution"),
 "C16": dict(level="other", design="§2 C16", technique="static analysis: dominance-in-loop and value-flow rules on the MIR of Parser::error_recovery (token accounting) + sibling agreement of the error column (lower / error_action / TERMINAL list) with abstract evaluation of the generator expression",
   text="Decides the token-accounting clause: every token taken from the lookahead is pushed on the one dropped_tokens vector before the next pull, the vector is only pushed to and moved whole into ErrorRecovery, the error is computed before dropping, and the error pseudo-terminal column agrees in three places. Tree well-formedness and span ordering are NOT decided.",
   note="trusted: rustc MIR"),
 "C17": dict(level="other", design="§2 C17", technique="static analysis: value-flow (payload returned verbatim) and must-not-pass-through rules over the MIR of next_token/parse/parse_eof/error_recovery; template rules for ToTriple impls and fallible reductions",
   text="Runtime half: every arm that propagates a lexer error, an action result or a recovery result returns exactly that payload and reaches the return with no pull/reduce/recovery/definition call (all arms enumerated). Generated half at template level: Result items map Err(e) to User{error:e}; fallible actions propagate with `?`/`return Some(Err(e))`.",
   note="trusted: rustc MIR; rustc's typing of the generated Result plumbing"),
})
CLAIMED.update({
 "C06": dict(level="other", design="§2 C06/C07", technique="static analysis: sibling-agreement rule over the code-emission templates (syntax tree with guard stacks) for the empty-reduction location chain; arm rule for the @L/@R actions",
   text="Decides one clause: every template computing the start location of a production that pops no symbols takes the lookahead start first, then the top-of-stack end, then the default (both backends), and @L/@R return lookahead/lookbehind. Spans of non-empty symbols and whole-result equality are NOT decided.",
   note="trusted: syn parse + guard-stack extraction"),
 "C07": dict(level="other", design="§2 C06/C07", technique="static analysis: sibling-agreement rule between lr1/codegen/parse_table.rs and lr1/codegen/ascent.rs templates (empty-reduction location chain)",
   text="Decides only the agreement of the two serialisations on the empty-reduction location chain (the place where they compute a value by different code). Equality of results on all inputs is NOT decided.",
   note="trusted: syn parse + guard-stack extraction"),
 "C13": dict(level="other", design="§2 C13", technique="static analysis: lint over the arms of `impl Display for SymbolKind` (syntax tree) + cache-key construction sites in macro_expand",
   text="Decides the distinguishability of expansion cache keys (a necessary condition of 'distinct instantiations never interfere'): no arm renders as a bare identifier, composite renderings contain a non-identifier character, keys come from canonical_form(). Language/value equivalence of expansions is NOT decided.",
   note="trusted: syn parse"),
 "C19": dict(level="other", design="§2 C19", technique="static analysis: deviance lint over all code-emission templates (location projections `.0`/`.2` and `*&Location` must be cloned) + value-flow / exhaustiveness rules on rustc MIR (type-parameter filter, pattern traversals)",
   text="Decides three clauses: generated code demands only Clone of the user's location type (the documented bound); the type parameters kept for the generated symbol enums derive from the symbol types only (not from where-clauses); every traversal that reports `<T>` bindings of a pattern visits every pattern form that can hold one. Type inference and compilation of arbitrary grammars are NOT decided.",
   note="trusted: syn parse of the generator sources"),
 "C24": dict(level="proof", design="§2 C24", technique="static analysis: rustc field-read facts (who reads the three flags, taint of the values read) + syntax-tree guard analysis of every emission under a flag guard (comment-only / whitespace-only / nothing), Display-impl classification",
   text="Whole property at template level: every obligation (each flag read, each guarded emission, each then/else pair, each instantiation of the row writer, the report region) is discharged; the flags can only add or remove `//` comments and white space, so the token stream is unchanged.",
   note="assumes values formatted into comment lines render on one line; trusted: rustc MIR field resolution, syn guard stacks"),
 "C25": dict(level="other", design="§2 C25", technique="static analysis: lint over name-synthesis sites of the normalisation passes (syntax tree with call chains): invented nonterminal/binding names must carry the grammar prefix or a non-identifier character",
   text="Decides the clause 'names invented by normalisation cannot be written by a user'. Three known findings (precedence level names, repeat bindings v/e) are genuine defects recorded in known_findings.json. Also decides, on MIR, that parse_grammar's prefix search tests the whole input after every extension and returns only when the prefix is absent, and that util::Escape never copies its escape introducer. Hygiene of local binders inside emitted bodies is NOT decided.",
   note="trusted: syn parse + call-chain extraction"),
})
CLAIMED.update({
 "C05": dict(level="other", design="§2 C05", technique="static analysis: value-flow rule on the MIR of unrecognized_token_error and its callers + template wiring rules (override -> simulation over TERMINAL) + sibling rule across backends",
   text="Decides which computation is wired in: the runtime fills `expected` from expected_tokens_from_states(whole stack), the generated override filters TERMINAL through the accepts simulation, TERMINAL excludes exactly the error column; the generated accepts simulation keeps a real stack (own copy, pop states_to_pop, push goto state); a backend not using the simulation is reported (known finding: recursive ascent). Validity of each listed terminal is NOT decided.",
   note="trusted: rustc MIR; syn parse"),
 "C11": dict(level="other", design="§2 C11", technique="static analysis: unit-consistency (alphabet) rule on the MIR of lexer::nfa::Nfa::expr: Test constructors tagged BYTE/SCALAR by parameter type, arms identified by enum downcasts, build alphabet from the crate's cfg",
   text="Decides one necessary clause: all NFA edge labels of a build live in one alphabet (literals vs classes). Equivalence of the overlap computation with the runtime matcher is NOT decided.",
   note="trusted: rustc MIR/types; regex-syntax yields Class::Unicode in Unicode mode"),
})
CLAIMED.update({
 "C15": dict(level="other", design="§2 C15", technique="static analysis: symbolic (term-level, path-condition-carrying) evaluation of the MIR of cond_comp::cfg_active / test_feat_attr and of every retain/filter closure applying it",
   text="Decides the evaluator and the removal sites: per path condition (attribute id == \"not\"/\"all\"/\"any\"/\"feature\") the returned term must be the Rust cfg operator; several cfg attributes are conjoined; the predicate is applied un-negated to nonterminals, alternatives and conversions (remove_disabled_decls + lower). Behavioural equality with the pruned grammar is NOT decided.",
   note="trusted: rustc MIR; term evaluator (rules/symex.py)"),
})
CLAIMED.update({
 "C01": dict(level="other", design="§2 C01", technique="static analysis: symbolic evaluation of the MIR of the table writer (lr1::codegen::parse_table) and of the 15 ParserAction reader bodies (lalrpop-util), template rules for the emitted readers, dominance rule for the integer-width selection",
   text="Decides the table-codec and width clauses: shift = s+1, reduce = -(p+1), error = 0 on the writer side; readers invert it exactly (all three integer widths, emitted accepts/expected_tokens/goto default); i8/i16 are selected only under max(#states,#reductions) <= 127/32767. Construction of the automaton and acceptance of exactly L(S) are NOT decided.",
   note="trusted: rustc MIR; term evaluator; syn parse"),
 "C03": dict(level="other", design="§2 C03", technique="static analysis: call-graph reachability + provenance (deep value-flow incl. &mut out-parameters) + blocking-branch rule over every function returning the table-construction Result; dominance rule in build::emit_recursive_ascent",
   text="Decides that every construction that builds Ok(states) itself reaches Lookahead::conflicts, can fail, and has a branch on conflict evidence that blocks success; forwarders only pass on checked results; code generation is dominated by the Ok arm and the Err arm generates nothing. The 'iff' (exactness of conflict detection / lane-table resolution) is NOT decided.",
   note="trusted: rustc MIR and callee resolution"),
 "C09": dict(level="other", design="§2 C09", technique="static analysis: value-flow/affine-shape rules on the MIR of the precedence encoding sites, ADT/derive facts, dominance (sort before numbering), iterator-chain rules for index agreement, template order rule for the implicit skip, runtime Iterator::max rule",
   text="Decides the precedence-encoding clause: one formula rung*k+base at both sites with base < k and Quoted > Regex, derived field-wise Ord with precedence first, entries sorted before numbering, rungs numbered len-idx, terminal indices = positions in the sorted list on both the generator and emitted side, implicit skip last, runtime picks the maximum pattern id. Longest-match behaviour of the DFA is NOT decided.",
   note="trusted: rustc MIR; derive(Ord) semantics"),
 "C10": dict(level="other", design="§2 C10", technique="static analysis: constant-argument call facts (builder options) compared between generator and runtime crates, Cargo feature graph (tomllib), value-flow for escape(), sibling dispatch rule, template quoting rule; repeated for the no-unicode configuration in the thorough tier",
   text="Decides that build-time and run-time regex syntax options agree and follow the unicode feature, literals pass through regex_syntax::escape, both consumers dispatch Quoted/Regex identically and patterns are Display-rendered then {:?}-quoted. Round-tripping through regex_syntax Display is trusted, NOT decided.",
   note="trusted: regex-syntax and regex-automata implement one syntax for equal options"),
 "C23": dict(level="other", design="§2 C23", technique="static analysis: guard/dominance/value-flow rules on the MIR of gen_resolve_file, lalrpop_files, process_file_into, process_file, process_dir",
   text="Decides the discovery/bookkeeping clauses: white-space names rejected before Ok, result = out_dir.join(name).with_extension(rs|report), walk follows links / keeps only regular .lalrpop files / routes errors through the symlink handler, rerun directive emitted before the gate, one writer call per file with its own resolved path. Path arithmetic over all trees is NOT decided.",
   note="trusted: rustc MIR; walkdir semantics"),
})
NA.update({
 "C02": "static analysis declines: the returned value is the user's action code evaluated over the derivation; what is not already forced by rustc's typing of the generated calls is a property of all derivations (values, order of side effects) with no structural necessary clause left beyond those claimed under C07/C17",
 "C12": "static analysis declines: equivalence of the precedence/associativity expansion with the documented tiered grammar is language equivalence over all annotation layouts and inputs; no sound structural clause in reach (a frozen expected expansion would be a brittle proxy)",
 "C14": "static analysis declines: equivalence of inlined and non-inlined grammars (language, values, order of fallible actions) over all inputs is behavioural; the only structural part (`?` under fallibility in emit_inline_action_code) is already claimed under C17",
 "C18": "static analysis declines: panic freedom for all byte strings needs value-level invariants across passes for ~190 unwrap/expect/panic/assert sites plus every index/slice/arithmetic site; no sound value analysis in reach, and a frozen site inventory would alarm on harmless edits",
 "C26": "static analysis declines: layout insensitivity and verbatim transfer depend on the hand-written scanner Tokenizer::code agreeing with Rust's lexical grammar on all texts (a language-level property of a character-level state machine); no structural necessary clause that is not a text-equality proxy",
})
CLAIMED.update({
 "C12": dict(level="other", design="§9.5 C12", technique="static analysis: symbolic evaluation / value-flow over the MIR of normalize::precedence (the associativity table in expand_nonterm, the substitution step replace_symbol, the direction folds, Assoc::from_str / Default)",
   text="Decides the structural clause behind the documented tiers: left/right/none/all map to (OneThen(current,previous),Forward) / (same,Backward) / Every(previous) / Every(current); replace_symbol rewrites and steps the state as documented; Forward/Backward fold over iter_mut()/.rev(); the keywords and the default `all`; a precedence attribute always resets the associativity and attribute extraction does not depend on attribute order; levels sorted and deduplicated. Language equivalence with the documented grammar is NOT decided.",
   note="trusted: rustc MIR; term evaluator"),
})
NA.pop("C12", None)
CLAIMED.update({
 "C02": dict(level="other", design="§9.5 C02", technique="static analysis: iterator-adaptor types from rustc MIR + template rules for the reduce code (pop order, argument order) and the action function's parameter list",
   text="Decides only the clause that rustc's typing does not force: children reach the action in left-to-right order (reverse pop with enumerate index, forward argument list, patterns zipped with types in order, middle component of the triple bound). Which action runs, default actions, bindings and exactly-once post-order evaluation are NOT decided.",
   note="trusted: rustc MIR iterator types; syn parse; rustc type-checks generated calls"),
})
NA.pop("C02", None)
CLAIMED.update({
 "C14": dict(level="other", design="§9.5 C14", technique="static analysis: sibling rule over the three passes of build::action::emit_inline_action_code (MIR: forward iteration, identical counter arithmetic) + template rules binding placeholders to the counters",
   text="Decides the clause 'the synthetic action pairs inlined results and original arguments positionally and runs inlined actions left to right, fallible ones with `?`'. Language/conflict equivalence of the inlined grammar and the cross product in normalize::inline are NOT decided.",
   note="trusted: rustc MIR; syn parse"),
})
NA.pop("C14", None)
