CLAIMED.update({
 "C20": dict(level="proof", design="§2 C20", technique="static analysis: type-based lint over all MIR bodies (hash-iterator types, generic arguments), static/thread-local inventory with RAII-writer rule, who-may-call denylist for ambient sources, taint of timestamps",
   text="Sound over-approximation for the generator process: every MIR body of the lalrpop crate is scanned; any evidence of hash-order iteration, mutable global state outside two RAII-scoped thread-locals, ambient source (time/random/env/pid/addresses) or unsorted directory walk is an undischarged obligation. No such source => equal bytes across runs, processes and batches.",
   note="trusted: rustc types; BTreeMap/Vec/petgraph/ena/bit-set iterate deterministically; string_cache::Atom orders by content; frozen exception tables (1 hash site, 5 configuration env reads) in rules/c20.py"),
})
