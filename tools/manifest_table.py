CLAIMED.update({
 "C20": dict(level="proof", design="§2 C20", technique="static analysis: type-based lint over all MIR bodies (hash-iterator types, generic arguments), static/thread-local inventory with RAII-writer rule, who-may-call denylist for ambient sources, taint of timestamps",
   text="Sound over-approximation for the generator process: every MIR body of the lalrpop crate is scanned; any evidence of hash-order iteration, mutable global state outside two RAII-scoped thread-locals, ambient source (time/random/env/pid/addresses) or unsorted directory walk is an undischarged obligation. No such source => equal bytes across runs, processes and batches.",
   note="trusted: rustc types; BTreeMap/Vec/petgraph/ena/bit-set iterate deterministically; string_cache::Atom orders by content; frozen exception tables (1 hash site, 5 configuration env reads) in rules/c20.py"),
})
CLAIMED.update({
 "C28": dict(level="proof", design="§2 C28", technique="static analysis: symbolic (term-level) evaluation of the MIR of map_intern/map_location/map_token/map_error/From::from and comparison with the term prescribed by the ParseError ADT definition",
   text="Clause decided: the three maps and From<E>. Every return path of map_intern is evaluated to a term over its inputs (closure inlined); one obligation per variant, field and tuple position. By parametricity in L,T,E term equality is a full functional specification. The Display strings are NOT decided.",
   note="trusted: rustc MIR, the term evaluator (rules/symex.py); user closures are uninterpreted symbols"),
})
CLAIMED.update({
 "C27": dict(level="proof", design="§2 C27", technique="static analysis: rustc auto-trait/Freeze queries on the runtime types (custom driver) + syntax-tree lint over all code-emission templates (no static/thread_local/unsafe/interior mutability; Parser struct fields; parse(&self))",
   text="Whole property at the type level: MatcherBuilder is Send+Sync+Freeze (rustc queries), the per-parse Matcher owns its cache, lalrpop-util has no shared mutable items and no unsafe, and no template can emit shared mutable state; so concurrent parse(&self) calls share only immutable data and cannot interfere.",
   note="trusted: rustc's Send/Sync/Freeze reasoning and aliasing rules; regex-automata DFA immutability; user action code out of scope"),
})
CLAIMED.update({
 "C08": dict(level="other", design="§2 C08", technique="static analysis: path rule over the MIR CFG of Matcher::next (progress test on the consumed length guards every token return and loop back edge) and dominance rule in Parser::parse (pull only after shift)",
   text="Decides only the lexer-progress and pull-discipline clauses (necessary conditions of termination): every returned token / skip-loop iteration consumed >= 1 byte, text advances by that length, one pull per shift. Does NOT decide bounded reductions, recovery termination or panic freedom (table invariants).",
   note="trusted: rustc MIR; regex-automata stepping terminates"),
})
