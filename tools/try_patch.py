#!/usr/bin/env python3
"""Run the registered quick checks against /repo + a patch, on a scratch worktree (never touches /repo).
usage: tools/try_patch.py <patch.diff> [PROP ...]     prints, per check, exit code and the violation keys"""
import json, os, shutil, subprocess, sys, tempfile
V = os.path.dirname(os.path.dirname(os.path.abspath(__file__)))
patch = os.path.abspath(sys.argv[1])
props = sys.argv[2:] or [c["property_id"] for c in json.load(open(os.path.join(V, "MANIFEST.json")))["checks"]]
wt = tempfile.mkdtemp(prefix="verif-try-"); os.rmdir(wt)
subprocess.run(["git", "-C", "/repo", "worktree", "add", "--detach", wt, "HEAD"], capture_output=True, check=True)
res = {}
try:
    r = subprocess.run(["git", "-C", wt, "apply", patch], capture_output=True, text=True)
    if r.returncode != 0:
        print("patch does not apply:", r.stderr.strip()[:400]); sys.exit(2)
    evd = tempfile.mkdtemp(prefix="verif-try-ev-")
    env = dict(os.environ, VERIF_REPO=wt, VERIF_EVIDENCE_DIR=evd)
    for p in props:
        r = subprocess.run([os.path.join(V, "check"), p], capture_output=True, text=True, env=env, cwd=V)
        keys = []
        rp = os.path.join(evd, "replay", p + ".json")
        if r.returncode == 1 and os.path.exists(rp):
            keys = [v["key"] for v in json.load(open(rp))["violations"]]
            os.remove(rp)
        res[p] = (r.returncode, keys)
        tag = {0: "silent", 1: "FIRES ", 2: "ERROR "}.get(r.returncode, "?")
        print("%-4s %s %s" % (p, tag, keys[:5] if keys else (r.stdout[-300:].replace("VIOLATION", "V10LATION") if r.returncode == 2 else "")))
    shutil.rmtree(evd, ignore_errors=True)
finally:
    subprocess.run(["git", "-C", "/repo", "worktree", "remove", "--force", wt], capture_output=True)
    shutil.rmtree(wt, ignore_errors=True)
print("fired:", [p for p, (c, k) in res.items() if c == 1])
