#!/usr/bin/env python3
"""Confirm a seeded change produced by a sub-agent and record it under /verif/seeded/<name>/.
usage: tools/confirm_seed.py <dir with patch.diff, run.sh, meta.json> <name> [--skip-tests]
Steps (all on a scratch worktree of /repo HEAD under /tmp, removed afterwards):
  1. demo on the unchanged tree must exit 0     2. patch applies; demo on the changed tree must exit != 0
  3. the existing suite passes with the change (nextest command of BASELINE.json, 349 tests)
  4. every registered quick check is run against the changed tree (tools/try_patch.py)."""
import json, os, re, shutil, subprocess, sys, tempfile, time
V = os.path.dirname(os.path.dirname(os.path.abspath(__file__)))
src, name = os.path.abspath(sys.argv[1]), sys.argv[2]
skip_tests = "--skip-tests" in sys.argv
# several workers may hold overlapping queues: the first to claim a seed confirms it
os.makedirs("/tmp/confirm_claimed", exist_ok=True)
try:
    os.mkdir("/tmp/confirm_claimed/" + name)
except FileExistsError:
    print("already claimed:", name)
    sys.exit(0)
out = os.path.join(V, "seeded", name)
wt = tempfile.mkdtemp(prefix="verif-confirm-"); os.rmdir(wt)
subprocess.run(["git", "-C", "/repo", "worktree", "add", "--detach", wt, "HEAD"], capture_output=True, check=True)
env = dict(os.environ, CARGO_TARGET_DIR=os.environ.get("CONFIRM_TARGET", "/tmp/confirm-target"), CARGO_NET_OFFLINE="true")
log = {}
def run(cmd, cwd=None, timeout=3600):
    t = time.time()
    r = subprocess.run(cmd, cwd=cwd, env=env, capture_output=True, text=True, timeout=timeout)
    return r.returncode, (r.stdout + r.stderr)[-3000:], round(time.time() - t)
try:
    rc, o, t = run(["bash", os.path.join(src, "run.sh"), wt], cwd=src)
    log["demo_unchanged"] = {"exit": rc, "secs": t, "tail": o[-600:]}
    r = subprocess.run(["git", "-C", wt, "apply", os.path.join(src, "patch.diff")], capture_output=True, text=True)
    log["patch_applies"] = r.returncode == 0
    if r.returncode != 0:
        log["patch_error"] = r.stderr[-500:]
    else:
        rc, o, t = run(["bash", os.path.join(src, "run.sh"), wt], cwd=src)
        log["demo_changed"] = {"exit": rc, "secs": t, "tail": o[-600:]}
        if not skip_tests:
            rc, o, t = run(["cargo", "nextest", "run", "--workspace", "--no-fail-fast", "--tool-config-file", "pb:/w/lib/nextest.toml",
                            "--profile", "pb", "--test-threads", "8", "--offline"], cwd=wt, timeout=7200)
            m = re.search(r"(\d+) tests run: (\d+) passed(?:.*?(\d+) failed)?", o)
            log["suite_with_change"] = {"exit": rc, "secs": t, "summary": m.group(0) if m else o[-400:]}
    r = subprocess.run([os.path.join(V, "tools", "try_patch.py"), os.path.join(src, "patch.diff")], capture_output=True, text=True)
    fired = {}
    for line in r.stdout.splitlines():
        mm = re.match(r"^(C\d+)\s+FIRES\s+(.*)$", line)
        if mm:
            fired[mm.group(1)] = mm.group(2)
    log["checks_fired"] = fired
finally:
    subprocess.run(["git", "-C", "/repo", "worktree", "remove", "--force", wt], capture_output=True)
    shutil.rmtree(wt, ignore_errors=True)
ok = log.get("demo_unchanged", {}).get("exit") == 0 and log.get("patch_applies") and log.get("demo_changed", {}).get("exit", 0) != 0 and \
    (skip_tests or (log.get("suite_with_change", {}).get("exit") == 0))
log["confirmed"] = bool(ok)
print(json.dumps(log, indent=1))
if ok:
    os.makedirs(out, exist_ok=True)
    for fn in os.listdir(src):
        p = os.path.join(src, fn)
        if fn in ("target",) or fn.endswith(".log"):
            continue
        if os.path.isdir(p):
            shutil.copytree(p, os.path.join(out, fn), dirs_exist_ok=True, ignore=shutil.ignore_patterns("target", "*.rlib", "*.rmeta", "*.o", "*.d"))
        else:
            shutil.copy(p, out)
    meta = {}
    try:
        meta = json.load(open(os.path.join(src, "meta.json")))
    except Exception:
        pass
    meta["confirmation"] = log
    meta["repo_head"] = subprocess.run(["git", "-C", "/repo", "rev-parse", "--short", "HEAD"], capture_output=True, text=True).stdout.strip()
    json.dump(meta, open(os.path.join(out, "meta.json"), "w"), indent=1)
    print("recorded in", out)
