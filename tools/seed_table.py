#!/usr/bin/env python3
"""Print the markdown table of confirmed seeded changes (from /verif/seeded/*/meta.json)."""
import json, os
V = os.path.dirname(os.path.dirname(os.path.abspath(__file__)))
rows = []
try:
    NOTES = json.load(open(os.path.join(V, "seeded", "NOTES.json")))
except Exception:
    NOTES = {}
for name in sorted(os.listdir(os.path.join(V, "seeded"))):
    p = os.path.join(V, "seeded", name, "meta.json")
    if not os.path.exists(p):
        continue
    m = json.load(open(p))
    c = m.get("confirmation", {})
    fired = c.get("checks_fired", {})
    notes = NOTES.get(name, m.get("verif_notes", ""))
    rows.append("| %s | %s | %s | %s | %s |" % (
        name, m.get("property", "?"), (m.get("summary", "") or "").replace("|", "/").replace("\n", " ")[:160],
        ", ".join("%s" % k for k in sorted(fired)) or "**none**", notes))
print("| seed | property | change (by an independent sub-agent) | checks that fire | notes |\n|---|---|---|---|---|")
print("\n".join(rows))
