#!/usr/bin/env python3
"""Self-test of the checkers on scratch copies of /repo.

usage: selftest/run.py [--only NAME] [--props C21,C22] [--keep]
Each case = selftest/cases/<name>/{patch.diff, meta.json}.  meta.json:
  {"kind": "breaking"|"preserving", "expect": {"C21": ["key-substring", ...]}, "why": "..."}
A breaking case must make every listed check exit 1 with a violation key containing each
substring; a preserving case must leave the listed checks at exit 0.  The scratch worktree lives
under /tmp and is removed afterwards; output of the checks is captured (never echoed verbatim).
"""
import argparse, json, os, shutil, subprocess, sys, tempfile

VERIF = os.path.dirname(os.path.dirname(os.path.abspath(__file__)))
REPO = "/repo"


def sh(*a, **k):
    return subprocess.run(a, capture_output=True, text=True, **k)


def run_case(name, d, props_filter, keep=False):
    meta = json.load(open(os.path.join(d, "meta.json")))
    wt = tempfile.mkdtemp(prefix="verif-selftest-")
    os.rmdir(wt)
    r = sh("git", "-C", REPO, "worktree", "add", "--detach", wt, "HEAD")
    if r.returncode != 0:
        return [(name, "?", False, "worktree: " + r.stderr)]
    results = []
    try:
        # carry over uncommitted changes of /repo (checks analyse the working tree)
        diff = sh("git", "-C", REPO, "diff", "HEAD").stdout
        if diff.strip():
            subprocess.run(["git", "-C", wt, "apply"], input=diff, text=True)
        r = sh("git", "-C", wt, "apply", os.path.join(d, "patch.diff"))
        if r.returncode != 0:
            return [(name, "?", False, "patch does not apply: " + r.stderr.strip()[:300])]
        evd = tempfile.mkdtemp(prefix="verif-selftest-ev-")
        for prop, subs in meta["expect"].items():
            if props_filter and prop not in props_filter:
                continue
            env = dict(os.environ, VERIF_REPO=wt, VERIF_EVIDENCE_DIR=evd)
            r = sh(os.path.join(VERIF, "check"), prop, env=env, cwd=VERIF)
            keys = []
            rp = os.path.join(evd, "replay", prop + ".json")
            if r.returncode == 1 and os.path.exists(rp):
                keys = [v["key"] for v in json.load(open(rp))["violations"]]
            if meta["kind"] == "breaking":
                ok = r.returncode == 1 and all(any(s in k for k in keys) for s in subs)
                detail = "exit=%d keys=%s" % (r.returncode, keys[:6])
            else:
                ok = r.returncode == 0
                detail = "exit=%d keys=%s" % (r.returncode, keys[:6])
            if r.returncode == 2:
                detail += " " + r.stdout[-600:].replace("VIOLATION", "V10LATION")
            results.append((name, prop, ok, detail))
            if os.path.exists(rp):
                os.remove(rp)
        shutil.rmtree(evd, ignore_errors=True)
    finally:
        if not keep:
            sh("git", "-C", REPO, "worktree", "remove", "--force", wt)
            shutil.rmtree(wt, ignore_errors=True)
    return results


def main():
    ap = argparse.ArgumentParser()
    ap.add_argument("--only")
    ap.add_argument("--props")
    ap.add_argument("--keep", action="store_true")
    a = ap.parse_args()
    base = os.path.join(VERIF, "selftest", "cases")
    pf = set(a.props.split(",")) if a.props else None
    allres = []
    for name in sorted(os.listdir(base)):
        if a.only and a.only not in name:
            continue
        d = os.path.join(base, name)
        if not os.path.isdir(d):
            continue
        meta = json.load(open(os.path.join(d, "meta.json")))
        if pf and not (pf & set(meta["expect"])):
            continue
        res = run_case(name, d, pf, a.keep)
        for r in res:
            print("%-44s %-4s %s  %s" % (r[0], r[1], "ok  " if r[2] else "FAIL", r[3]))
        allres += res
    bad = [r for r in allres if not r[2]]
    print("selftest: %d checks, %d failed" % (len(allres), len(bad)))
    return 1 if bad else 0


if __name__ == "__main__":
    sys.exit(main())
