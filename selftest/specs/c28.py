U = "lalrpop-util/src/lib.rs"
CASES = [
 dict(name="c28-swap-span-ends", kind="breaking", expect={"C28": ["map_intern:UnrecognizedToken.token.0"]},
      why="start/end swapped by maptok",
      edits=[(U, "let maptok = |(s, t, e): (L, T, L)| (loc_op(s), tok_op(t), loc_op(e));", "let maptok = |(s, t, e): (L, T, L)| { let t2 = tok_op(t); let e2 = loc_op(e); (e2, t2, loc_op(s)) };")]),
 dict(name="c28-extra-to-unrecognized", kind="breaking", expect={"C28": ["map_intern:variant:ExtraToken"]},
      why="ExtraToken mapped to UnrecognizedToken with empty expected",
      edits=[(U, "            ParseError::ExtraToken { token } => ParseError::ExtraToken {\n                token: maptok(token),\n            },",
                 "            ParseError::ExtraToken { token } => ParseError::UnrecognizedToken {\n                token: maptok(token),\n                expected: Vec::new(),\n            },")]),
 dict(name="c28-drop-expected", kind="breaking", expect={"C28": ["map_intern:UnrecognizedEof.expected"]},
      why="expected list dropped for UnrecognizedEof",
      edits=[(U, "            ParseError::UnrecognizedEof { location, expected } => ParseError::UnrecognizedEof {\n                location: loc_op(location),\n                expected,\n            },",
                 "            ParseError::UnrecognizedEof { location, expected } => ParseError::UnrecognizedEof {\n                location: loc_op(location),\n                expected: { drop(expected); Vec::new() },\n            },")]),
 dict(name="c28-preserving", kind="preserving", expect={"C28": []},
      why="match arms reordered, bindings renamed, closure written with a block",
      edits=[(U, "let maptok = |(s, t, e): (L, T, L)| (loc_op(s), tok_op(t), loc_op(e));", "let maptok = |(start, tok, end): (L, T, L)| {\n            let a = loc_op(start);\n            let b = tok_op(tok);\n            let c = loc_op(end);\n            (a, b, c)\n        };"),
             (U, "            ParseError::User { error } => ParseError::User {\n                error: err_op(error),\n            },\n", ""),
             (U, "        match self {\n            ParseError::InvalidToken { location } => ParseError::InvalidToken {", "        match self {\n            ParseError::User { error: user } => ParseError::User {\n                error: err_op(user),\n            },\n            ParseError::InvalidToken { location } => ParseError::InvalidToken {")]),
]
