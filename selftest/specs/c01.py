PT = "lalrpop/src/lr1/codegen/parse_table.rs"
SM = "lalrpop-util/src/state_machine.rs"
CASES = [
 dict(name="c01-width-off-by-one", kind="breaking", expect={"C01": ["width:i8"]},
      why="i8 selected for max == 128: a grammar with exactly 128 states overflows the shift entry for the last state",
      edits=[(PT, "            if max_value <= i8::MAX as usize {", "            if max_value <= i8::MAX as usize + 1 {")]),
 dict(name="c01-width-ignores-reductions", kind="breaking", expect={"C01": ["width:max-args"]},
      why="width chosen from the number of states only: grammars with few states but > 128 productions overflow reduce entries",
      edits=[(PT, "            let max_value = ::std::cmp::max(states.len(), reduce_indices.len());", "            let max_value = ::std::cmp::max(states.len(), states.len().min(reduce_indices.len()));")]),
 dict(name="c01-reader-i16-shift", kind="breaking", expect={"C01": ["reader:i16:as_shift"]},
      why="the macro for i16 decodes shifts as v instead of v-1 (only grammars with 128..32767 states use i16)",
      edits=[(SM, "integral_indices!(i16);", "impl<D: ParserDefinition<StateIndex = i16, ReduceIndex = i16>> ParserAction<D> for i16 {\n    fn as_shift(self) -> Option<D::StateIndex> {\n        if self > 0 { Some(self) } else { None }\n    }\n    fn as_reduce(self) -> Option<D::ReduceIndex> {\n        if self < 0 { Some(-(self + 1)) } else { None }\n    }\n    fn is_shift(self) -> bool {\n        self > 0\n    }\n    fn is_reduce(self) -> bool {\n        self < 0\n    }\n    fn is_error(self) -> bool {\n        self == 0\n    }\n}")]),
 dict(name="c01-accepts-reduce-index", kind="breaking", expect={"C01": ["emitted-reader:accepts:reduce-index"]},
      why="the expected-token simulation decodes the reduce index as -action (off by one)",
      edits=[(PT, "match {p}simulate_reduce(-({p}action + 1), {pde}) {{", "match {p}simulate_reduce(-{p}action, {pde}) {{")]),
 dict(name="c01-preserving", kind="preserving", expect={"C01": []},
      why="writer rewritten with a helper variable",
      edits=[(PT, "            let action = custom.reduce_indices[production];\n            (\n                -(action as i32 + 1),", "            let action = custom.reduce_indices[production];\n            let encoded = -(action as i32 + 1);\n            (\n                encoded,")]),
]
