PT = "lalrpop/src/lr1/codegen/parse_table.rs"
AC = "lalrpop/src/build/action.rs"
PR = "lalrpop/src/normalize/precedence/mod.rs"
ME = "lalrpop/src/normalize/macro_expand/mod.rs"
CASES = [
 dict(name="c02-forward-pop", kind="breaking", expect={"C02": ["table-pop-order"]},
      why="symbols popped first-to-last: children of a production with several symbols of one type are permuted (types hide it only when they differ)",
      edits=[(PT, "        for (index, symbol) in production.symbols.iter().enumerate().rev() {\n            let name = self.variant_name_for_symbol(symbol);",
                  "        let n = production.symbols.len();\n        for (index, symbol) in production.symbols.iter().rev().enumerate().map(|(i, s)| (n - 1 - i, s)).collect::<Vec<_>>().into_iter().rev() {\n            let name = self.variant_name_for_symbol(symbol);")]),
 dict(name="c12-right-walks-forward", kind="breaking", expect={"C12": ["table:right"]},
      why="right associativity substitutes the first occurrence instead of the last",
      edits=[(PR, "                    Assoc::Right => (\n                        Substitution::OneThen(symbol_kind, nonterm_prev.as_ref().expect(err_msg)),\n                        Direction::Backward,\n                    ),",
                  "                    Assoc::Right => (\n                        Substitution::OneThen(symbol_kind, nonterm_prev.as_ref().expect(err_msg)),\n                        Direction::Forward,\n                    ),")]),
 dict(name="c12-none-is-all", kind="breaking", expect={"C12": ["table:none"]},
      why="`none` keeps recursive occurrences at the current level (chaining accepted)",
      edits=[(PR, "                    Assoc::NonAssoc => (\n                        Substitution::Every(nonterm_prev.as_ref().expect(err_msg)),", "                    Assoc::NonAssoc => (\n                        Substitution::Every(if nonterm_prev.is_some() { symbol_kind } else { nonterm_prev.as_ref().expect(err_msg) }),")]),
 dict(name="c12-onethen-keeps-first", kind="breaking", expect={"C12": ["step-onethen"]},
      why="after the first occurrence the substitution keeps using the first symbol",
      edits=[(PR, "                symbol.kind = fst.clone();\n                Substitution::Every(snd)", "                symbol.kind = fst.clone();\n                let _ = snd;\n                Substitution::Every(fst)")]),
 dict(name="c14-final-call-counter", kind="breaking", expect={"C14": ["inline-counters"]},
      why="the final call advances arg_counter by one per inlined symbol instead of by the number of symbols it consumed",
      edits=[(AC, "                rust!(rust, \"{}temp{},\", grammar.prefix, temp_counter);\n                temp_counter += 1;\n                arg_counter += syms.len();", "                rust!(rust, \"{}temp{},\", grammar.prefix, temp_counter);\n                temp_counter += 1;\n                arg_counter += syms.len().min(1);")]),
 dict(name="c13-cond-swapped", kind="breaking", expect={"C13": ["cond:"]},
      why="`!~` evaluated like `~~`",
      edits=[(ME, "                        ConditionOp::NotMatch => Ok(!self.re_match(c.span, lhs, &c.rhs)?),", "                        ConditionOp::NotMatch => Ok(self.re_match(c.span, lhs, &c.rhs)?),")]),
 dict(name="clauses-preserving", kind="preserving", expect={"C02": [], "C12": [], "C13": [], "C14": []},
      why="cosmetic rewrites in the clause anchors",
      edits=[(PR, "                symbol.kind = fst.clone();\n                Substitution::Every(snd)", "                let first = fst.clone();\n                symbol.kind = first;\n                Substitution::Every(snd)"),
             (ME, "                        ConditionOp::Equals => Ok(lhs == &c.rhs),", "                        ConditionOp::Equals => {\n                            let same = lhs == &c.rhs;\n                            Ok(same)\n                        }")]),
]
