CC = "lalrpop/src/normalize/cond_comp/mod.rs"
LO = "lalrpop/src/normalize/lower/mod.rs"
CASES = [
 dict(name="c15-any-for-all-toplevel", kind="breaking", expect={"C15": ["cfg:fold"]},
      why="several cfg attributes on one item are OR-ed (no test has two cfg attributes on one item)",
      edits=[(CC, "        .filter(|attr| attr.id == cfg_atom)\n        .all(|attr| match &attr.arg {", "        .filter(|attr| attr.id == cfg_atom)\n        .any(|attr| match &attr.arg {")]),
 dict(name="c15-all-any-swapped", kind="breaking", expect={"C15": ["cfg:all", "cfg:any"]},
      why="all/any swapped inside nested predicates",
      edits=[(CC, "                attrs.iter().all(|attr| test_feat_attr(attr, session))", "                attrs.iter().any(|attr| test_feat_attr(attr, session))"),
             (CC, "                attrs.iter().any(|attr| test_feat_attr(attr, session))\n            }\n            AttributeArg::Equal", "                attrs.iter().all(|attr| test_feat_attr(attr, session))\n            }\n            AttributeArg::Equal")]),
 dict(name="c15-not-lost", kind="breaking", expect={"C15": ["cfg:not"]},
      why="negation dropped",
      edits=[(CC, "                .is_some_and(|attr| !test_feat_attr(attr, session)),", "                .is_some_and(|attr| test_feat_attr(attr, session)),")]),
 dict(name="c15-alternatives-not-filtered", kind="breaking", expect={"C15": ["applications of cfg_active"]},
      why="cfg on alternatives ignored",
      edits=[(CC, "            if active {\n                nt.alternatives\n                    .retain_mut(|prod| cfg_active(session, &prod.attributes));\n            }\n", "")]),
 dict(name="c15-lower-keeps-inactive", kind="breaking", expect={"C15": ["cfg:site"]},
      why="lowering keeps the inactive conversions instead of the active ones",
      edits=[(LO, ".filter(|conversion| cfg_active(session, &conversion.attributes))", ".filter(|conversion| !cfg_active(session, &conversion.attributes))")]),
 dict(name="c15-preserving", kind="preserving", expect={"C15": []},
      why="evaluator rewritten with if/else chains and named closures",
      edits=[(CC, "            AttributeArg::Paren(attrs) if attr.id == *\"all\" => {\n                attrs.iter().all(|attr| test_feat_attr(attr, session))\n            }",
                  "            AttributeArg::Paren(attrs) if attr.id == *\"all\" => {\n                let every = attrs.iter().all(|a| test_feat_attr(a, session));\n                every\n            }")]),
]
