LX = "lalrpop-util/src/lexer.rs"
SM = "lalrpop-util/src/state_machine.rs"
CASES = [
 dict(name="c08-zero-length-only-skip", kind="breaking", expect={"C08": ["lexer-progress:token-return"]},
      why="the original defect: zero-length test only under the skip branch",
      edits=[(LX, "            if longest_match == 0 {\n                return Some(Err(ParseError::InvalidToken {\n                    location: start_offset,\n                }));\n            }\n\n            if self.skip_vec[index] {\n                continue;\n            }",
                  "            if self.skip_vec[index] {\n                if longest_match == 0 {\n                    return Some(Err(ParseError::InvalidToken {\n                        location: start_offset,\n                    }));\n                }\n                continue;\n            }")]),
 dict(name="c08-skip-loop-no-progress", kind="breaking", expect={"C08": ["lexer-progress:skip-loop"]},
      why="zero-length test only for non-skip tokens: an empty skip match spins forever",
      edits=[(LX, "            if longest_match == 0 {\n                return Some(Err(ParseError::InvalidToken {\n                    location: start_offset,\n                }));\n            }\n\n            if self.skip_vec[index] {\n                continue;\n            }",
                  "            if self.skip_vec[index] {\n                continue;\n            }\n            if longest_match == 0 {\n                return Some(Err(ParseError::InvalidToken {\n                    location: start_offset,\n                }));\n            }")]),
 dict(name="c08-preserving-nonzero-test", kind="preserving", expect={"C08": []},
      why="progress test written as `> 0` with the branches swapped",
      edits=[(LX, "            if longest_match == 0 {\n                return Some(Err(ParseError::InvalidToken {\n                    location: start_offset,\n                }));\n            }\n\n            if self.skip_vec[index] {\n                continue;\n            }\n\n            return Some(Ok((start_offset, Token(index, result), end_offset)));",
                  "            if longest_match > 0 {\n                if self.skip_vec[index] {\n                    continue;\n                }\n                return Some(Ok((start_offset, Token(index, result), end_offset)));\n            }\n            return Some(Err(ParseError::InvalidToken {\n                location: start_offset,\n            }));")]),
 dict(name="c08-pull-without-shift", kind="breaking", expect={"C08": ["driver:pull-without-shift"]},
      why="after a reduction that yields no result the driver pulls a fresh token, dropping the lookahead (only matters for inputs where a reduce precedes a shift of the same token)",
      edits=[(SM, "                    if let Some(r) = self.reduce(reduce_index, Some(&lookahead.0)) {\n                        return match r {\n                            // we reached eof, but still have lookahead\n                            Ok(_) => Err(crate::ParseError::ExtraToken { token: lookahead }),\n                            Err(e) => Err(e),\n                        };\n                    }",
                  "                    if let Some(r) = self.reduce(reduce_index, Some(&lookahead.0)) {\n                        return match r {\n                            // we reached eof, but still have lookahead\n                            Ok(_) => Err(crate::ParseError::ExtraToken { token: lookahead }),\n                            Err(e) => Err(e),\n                        };\n                    }\n                    if self.states.len() > 1_000_000 {\n                        continue 'shift;\n                    }")]),
]
