SM = "lalrpop-util/src/state_machine.rs"
PT = "lalrpop/src/lr1/codegen/parse_table.rs"
RE = "lalrpop/src/lexer/re/mod.rs"
LX = "lalrpop-util/src/lexer.rs"
AC = "lalrpop/src/build/action.rs"
TC = "lalrpop/src/normalize/token_check/mod.rs"
LO = "lalrpop/src/normalize/lower/mod.rs"
CASES = [
 dict(name="c05-top-state-only", kind="breaking", expect={"C05": ["runtime-expected"]},
      why="expected tokens computed from the top state only (over-broad with default reductions)",
      edits=[(SM, "            Some(token) => crate::ParseError::UnrecognizedToken {\n                token,\n                expected: self.definition.expected_tokens_from_states(states),",
                  "            Some(token) => crate::ParseError::UnrecognizedToken {\n                token,\n                expected: self.definition.expected_tokens(*states.last().unwrap()),")]),
 dict(name="c05-override-not-simulated", kind="breaking", expect={"C05": ["generated-override"]},
      why="the generated override falls back to the per-state list",
      edits=[(PT, '            "{p}expected_tokens_from_states(states, {pde})",\n            p = self.prefix,\n            pde = phantom_data_expr,', '            "{p}expected_tokens(*states.last().unwrap())",\n            p = self.prefix,')]),
 dict(name="c10-literal-not-escaped-alnum", kind="breaking", expect={"C10": ["literal-not-escaped"]},
      why="literals that look alphanumeric-with-dots skip escaping ('.' then matches any char)",
      edits=[(RE, "    match parse_regex(&regex_syntax::escape(s)) {", "    let escaped = if s.chars().all(|c| c.is_alphanumeric() || c == '.') { s.to_string() } else { regex_syntax::escape(s) };\n    match parse_regex(&escaped) {")]),
 dict(name="c10-runtime-utf8-off", kind="breaking", expect={"C10": ["syntax-options"]},
      why="runtime compiles patterns with utf8(false) while the generator parses with utf8(true)",
      edits=[(LX, "                    .unicode(enable_unicode)\n                    .utf8(enable_unicode),", "                    .unicode(enable_unicode)\n                    .utf8(false),")]),
 dict(name="c09-literal-below-regex", kind="breaking", expect={"C09": ["base-precedence"]},
      why="quoted literals no longer outrank regexes of the same rung",
      edits=[("lalrpop/src/grammar/parse_tree.rs", "            TerminalLiteral::Quoted(_) => 1,\n            TerminalLiteral::Regex(_) => 0,", "            TerminalLiteral::Quoted(_) => 0,\n            TerminalLiteral::Regex(_) => 0,")]),
 dict(name="c09-skip-first", kind="breaking", expect={"C09": ["implicit-skip-position"]},
      why="implicit whitespace skip emitted before the entries (gets pattern id 0: all terminal indices shift)",
      edits=[("lalrpop/src/lexer/intern_token/mod.rs", '    rust!(out, "let {}strs: &[(&str, bool)] = &[", prefix);\n', '    rust!(out, "let {}strs: &[(&str, bool)] = &[", prefix);\n    if !intern_token.match_entries.iter().any(|m| matches!(m.user_name, MatchMapping::Skip)) {\n        rust!(out, r#"(r"\\s+", true),"#);\n    }\n')]),
 dict(name="c19-new-move-site", kind="breaking", expect={"C19": ["loc-move"]},
      why="a new template moves a location out of a symbol",
      edits=[(PT, '            rust!(self.out, "let {}end = {}.2.clone();", self.prefix, last_sym);', '            rust!(self.out, "let {}end = {}.2;", self.prefix, last_sym);')]),
 dict(name="c25-unprefixed-start-symbol", kind="breaking", expect={"C25": ["synth-nonterminal:synthesize_start_symbols"]},
      why="synthetic start symbols named `Start<Name>` without the prefix",
      edits=[(LO, 'format!("{}{}", self.prefix, nt.name)', 'format!("Start{}", nt.name)')]),
 dict(name="c06-inline-empty-start", kind="breaking", expect={"C06": ["inline-span"]},
      why="an empty inlined item (e.g. @R) in second position takes the start of the next symbol instead of the end of the previous one",
      edits=[(AC, "                    if arg_counter > 0 {\n                        rust!(\n                            rust,\n                            \"let {}start{} = {}{}.2.clone();\",", "                    if arg_counter > 1 {\n                        rust!(\n                            rust,\n                            \"let {}start{} = {}{}.2.clone();\",")]),
]
