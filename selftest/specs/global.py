ALL = {p: [] for p in ["C01","C03","C04","C05","C06","C07","C08","C09","C10","C11","C13","C15","C16","C17","C19","C20","C21","C22","C23","C24","C27","C28"]}
CASES = [
 dict(name="global-preserving-layout", kind="preserving", expect=ALL,
      why="comment lines inserted at the top of the analysed files (all line numbers shift), an unused private helper added, a few locals renamed",
      edits=[("lalrpop/src/build/mod.rs", "//! Utilities for running in a build script.\n", "//! Utilities for running in a build script.\n//\n// (layout-only change)\n//\n"),
             ("lalrpop-util/src/state_machine.rs", "#![doc(hidden)]\n", "#![doc(hidden)]\n// layout-only change\n//\n"),
             ("lalrpop-util/src/lexer.rs", "#![doc(hidden)]\n", "#![doc(hidden)]\n// layout-only change\n"),
             ("lalrpop-util/src/lib.rs", "extern crate alloc;\n", "extern crate alloc;\n\n// layout-only change\n"),
             ("lalrpop/src/lr1/codegen/parse_table.rs", "//! A compiler from an LR(1) table to a traditional table driven parser.\n", "//! A compiler from an LR(1) table to a traditional table driven parser.\n//\n// layout-only change\n"),
             ("lalrpop/src/lr1/codegen/ascent.rs", "use crate::collections::Multimap;", "// layout-only change\nuse crate::collections::Multimap;"),
             ("lalrpop/src/rust/mod.rs", "const TAB: usize = 4;", "// layout-only change\nconst TAB: usize = 4;\n\n#[allow(dead_code)]\nfn unused_helper(x: usize) -> usize {\n    x + TAB\n}"),
             ("lalrpop/src/normalize/cond_comp/mod.rs", "    let cfg_atom = Atom::from(CFG);\n    attrs\n        .iter()\n        .filter(|attr| attr.id == cfg_atom)", "    let cfg_name = Atom::from(CFG);\n    attrs\n        .iter()\n        .filter(|attr| attr.id == cfg_name)"),
             ("lalrpop-util/src/state_machine.rs", "        let token = match self.tokens.next() {\n            Some(Ok(v)) => v,", "        let token = match self.tokens.next() {\n            Some(Ok(triple)) => triple,"),
             ]),
]
