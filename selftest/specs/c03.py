LALR = "lalrpop/src/lr1/build_lalr/mod.rs"
LT = "lalrpop/src/lr1/lane_table/construct/mod.rs"
BM = "lalrpop/src/build/mod.rs"
CASES = [
 dict(name="c03-lalr-no-conflict-scan", kind="breaking", expect={"C03": ["collapse_to_lalr_states"]},
      why="LALR collapse no longer scans the merged states for conflicts (only reachable with LALRPOP_LANE_TABLE=disabled and #[LALR] on a grammar that is LR(1) but not LALR(1))",
      edits=[(LALR, "    let conflicts: Vec<_> = lr1_states.iter().flat_map(TokenSet::conflicts).collect();\n\n    if !conflicts.is_empty() {\n        Err(TableConstructionError {\n            states: lr1_states,\n            conflicts,\n        })\n    } else {\n        Ok(lr1_states)\n    }",
                    "    Ok(lr1_states)")]),
 dict(name="c03-lane-table-ignores-failure", kind="breaking", expect={"C03": ["not-gated:lane_table"]},
      why="irreconcilable lane-table conflicts are ignored: an ambiguous grammar gets a parser",
      edits=[(LT, "                    let conflicts: Vec<Conflict<'grammar, TokenSet>> =\n                        states.iter().flat_map(Lookahead::conflicts).collect();\n                    return Err(TableConstructionError { states, conflicts });",
                  "                    let conflicts: Vec<Conflict<'grammar, TokenSet>> =\n                        states.iter().flat_map(Lookahead::conflicts).collect();\n                    if conflicts.len() > 1_000_000 {\n                        return Err(TableConstructionError { states, conflicts });\n                    }\n                    break;")]),
 dict(name="c03-codegen-before-check", kind="breaking", expect={"C03": ["codegen"]},
      why="conflicts are reported but the Err arm falls through to code generation with the conflicting states",
      edits=[(BM, "            Err(error) => {\n                let _ = lr1::report_error(grammar, &error, report_message);\n                return Err(io::Error::from(io::ErrorKind::InvalidData));\n            }",
                  "            Err(error) => {\n                let _ = lr1::report_error(grammar, &error, report_message);\n                if error.conflicts.len() > 3 {\n                    return Err(io::Error::from(io::ErrorKind::InvalidData));\n                }\n                error.states\n            }")]),
 dict(name="c03-preserving", kind="preserving", expect={"C03": []},
      why="conflict test rewritten with an early return",
      edits=[(LALR, "    if !conflicts.is_empty() {\n        Err(TableConstructionError {\n            states: lr1_states,\n            conflicts,\n        })\n    } else {\n        Ok(lr1_states)\n    }",
                    "    if conflicts.is_empty() {\n        return Ok(lr1_states);\n    }\n    Err(TableConstructionError {\n        states: lr1_states,\n        conflicts,\n    })")]),
]
