#!/usr/bin/env python3
"""Create selftest cases from a python spec file: CASES = [dict(name, kind, expect, why, edits=[(file, old, new), ...])]
usage: selftest/mkcases.py spec.py   (uses scratch worktree /tmp/stwt, which must be clean and at /repo's HEAD)"""
import json, os, subprocess, sys
WT = "/tmp/stwt"
spec = {}
exec(open(sys.argv[1]).read(), spec)
for c in spec["CASES"]:
    for file, old, new in c["edits"]:
        p = os.path.join(WT, file)
        s = open(p).read()
        if s.count(old) != 1:
            print("!! %s: pattern occurs %d times in %s: %r" % (c["name"], s.count(old), file, old[:60]))
            subprocess.run(["git", "-C", WT, "checkout", "--", "."])
            break
        open(p, "w").write(s.replace(old, new))
    else:
        d = os.path.join("/verif/selftest/cases", c["name"])
        os.makedirs(d, exist_ok=True)
        diff = subprocess.run(["git", "-C", WT, "diff"], capture_output=True, text=True).stdout
        open(os.path.join(d, "patch.diff"), "w").write(diff)
        json.dump({"kind": c["kind"], "expect": c["expect"], "why": c["why"]}, open(os.path.join(d, "meta.json"), "w"), indent=1)
        subprocess.run(["git", "-C", WT, "checkout", "--", "."])
        print("made", c["name"], len(diff.splitlines()), "lines")
