#!/bin/bash
# usage: selftest/mk.sh <case-name> <kind> '<expect-json>' '<why>'   (run after editing /tmp/stwt)
# creates selftest/cases/<name>/{patch.diff,meta.json} from the diff of the scratch worktree /tmp/stwt, then resets it
set -e
name=$1; kind=$2; expect=$3; why=$4
d=/verif/selftest/cases/$name
mkdir -p $d
git -C /tmp/stwt diff > $d/patch.diff
test -s $d/patch.diff || { echo "empty diff"; exit 1; }
python3 - "$d" "$kind" "$expect" "$why" <<'PY'
import json,sys
d,kind,expect,why=sys.argv[1:5]
json.dump({"kind":kind,"expect":json.loads(expect),"why":why},open(d+"/meta.json","w"),indent=1)
PY
git -C /tmp/stwt checkout -- .
echo "made $d ($(wc -l < $d/patch.diff) lines)"
