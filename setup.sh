#!/bin/bash
# Build the two extractors offline. Nothing else is needed (rules are stdlib Python).
set -e
cd "$(dirname "$0")"
export CARGO_NET_OFFLINE=true
(cd engines/mirfacts && cargo build --release --offline)
(cd engines/tmplfacts && cargo build --release --offline)
echo "setup ok"
